// Request handlers: steps (generic history interpreter on real VM objects), parse, registry, pp.
#include "driver.h"
#include "runtime/d_array.h"
#include "runtime/d_string.h"
#include "runtime/d_scalar.h"
#include "runtime/d_code.h"
#include "rvutils/pbofile.hpp"
#include "opcodes/push.h"

#include <filesystem>
#include <fstream>

using namespace sqf::runtime;

namespace vd
{
    static runtime::action action_of(const std::string& s)
    {
        if (s == "start") return runtime::action::start;
        if (s == "stop") return runtime::action::stop;
        if (s == "abort") return runtime::action::abort;
        if (s == "assembly_step") return runtime::action::assembly_step;
        if (s == "line_step") return runtime::action::line_step;
        if (s == "leave_scope") return runtime::action::leave_scope;
        if (s == "reset_run_atomic") return runtime::action::reset_run_atomic;
        return runtime::action::invalid;
    }
    static const char* state_name(runtime::state s)
    {
        switch (s)
        {
        case runtime::state::empty: return "empty";
        case runtime::state::halted: return "halted";
        case runtime::state::running: return "running";
        case runtime::state::halted_error: return "halted_error";
        case runtime::state::evaluating: return "evaluating";
        }
        return "?";
    }
    static js::val vm_state(vm& v)
    {
        auto o = js::val::object();
        auto& rt = *v.rt;
        o.set("state", state_name(rt.runtime_state()));
        o.set("error_flag", rt.__runtime_error());
        o.set("pending_msgs", (long long)rt.log_messages.size());
        auto ctxs = js::val::array();
        for (auto it = rt.context_begin(); it != rt.context_end(); ++it)
        {
            auto c = js::val::object();
            c.set("frames", (long long)(*it)->frames_size());
            c.set("values", (long long)(*it)->values_size());
            c.set("suspended", (*it)->suspended());
            c.set("name", (*it)->name());
            auto fr = js::val::array();
            for (auto f = (*it)->frames_rbegin(); f != (*it)->frames_rend(); ++f)
            {
                auto fo = js::val::object();
                fo.set("pos", f->position() == frame::position_invalid ? -1LL : (long long)f->position());
                // the instruction that is executed next, taken from the instruction set itself (not through frame::peek, whose
                // answer for a frame that has not started is part of what C19 judges)
                auto& iset = f->m_instruction_set;
                size_t nxi = f->position() == frame::position_invalid ? 0 : f->position() + 1;
                if (nxi < iset.size()) { auto nx = iset.begin() + nxi; fo.set("next_line", (long long)(*nx)->diag_info().line); fo.set("next", (*nx)->to_string()); }
                fr.push(fo);
            }
            c.set("frame_list", fr);
            ctxs.push(c);
        }
        o.set("contexts", ctxs);
        return o;
    }

    static std::unique_ptr<vm> g_template;
    static vmconf g_template_conf;
    js::val mode_prepare(const js::val& req)
    {
        g_clock.reset();
        g_template_conf = conf_from_json(req["conf"]);
        g_template = make_vm(0, g_template_conf);
        g_log.clear();
        return js::val::object();
    }
    js::val mode_steps(const js::val& req)
    {
        g_log.clear();
        g_clock.reset();
        if (req.has("clock"))
        {
            auto& c = req["clock"];
            if (c.has("start_us")) g_clock.now_us = c["start_us"].i64();
            g_clock.tick_us = c["tick_us"].i64(0);
            if (c.has("script_us")) for (size_t i = 0; i < c["script_us"].size(); i++) g_clock.script_us.push_back(c["script_us"][i].i64());
        }
        install_hooks(req["monitor"].boolean(false), req["slice_trace"].boolean(false), (size_t)req["slice"].i64(0));
        std::map<int, std::unique_ptr<vm>> vms;
        auto results = js::val::array();
        auto& steps = req["steps"];
        for (size_t si = 0; si < steps.size(); si++)
        {
            auto& st = steps[si];
            g_step = (int)si;
            std::string op = st["op"].str();
            int id = (int)st["id"].i64(0);
            auto r = js::val::object();
            long long instr0 = g_cnt.instr;
            long long t0 = g_clock.now_us;
            auto need = [&]() -> vm& {
                auto it = vms.find(id);
                if (it == vms.end()) throw std::runtime_error("no vm " + std::to_string(id));
                return *it->second;
            };
            if (op == "vm")
            {
                vmconf c = conf_from_json(st);
                if (st["template"].boolean(false) && g_template && g_template_conf.ops == c.ops && g_template_conf.synth == c.synth)
                {
                    // adopt the VM built before the fork (saves the operator registration cost per case)
                    auto v = std::move(g_template);
                    v->id = id; v->logger->vm = id;
                    v->logger->setEnabled(loglevel::verbose, c.trace); v->logger->setEnabled(loglevel::trace, c.trace);
                    auto& conf = v->rt->configuration();
                    conf.max_runtime = std::chrono::milliseconds(c.max_runtime_ms);
                    conf.disable_sleep = c.disable_sleep; conf.enable_classname_check = c.classname_check;
                    conf.print_context_work_to_log_on_exit = c.print_work;
                    conf.max_loop_iterations_in_unscheduled = (size_t)c.loop_cap;
                    vms[id] = std::move(v);
                    r.set("template", true);
                }
                else vms[id] = make_vm(id, c);
            }
            else if (op == "destroy")
            {
                vms.erase(id);
            }
            else if (op == "map")
            {
                need().rt->fileio().add_mapping(st["phys"].str(), st["virt"].str());
            }
            else if (op == "pbo")
            {
                auto& v = need();
                rvutils::pbo::pbofile pbo(std::filesystem::path(st["path"].str()));
                r.set("good", pbo.good());
                if (pbo.good()) static_cast<sqf::fileio::impl_default&>(v.rt->fileio()).add_pbo_mapping(pbo);
            }
            else if (op == "define")
            {
                auto& v = need();
                if (st.has("value")) v.rt->parser_preprocessor().push_back({ st["name"].str(), st["value"].str() });
                else v.rt->parser_preprocessor().push_back({ st["name"].str() });
            }
            else if (op == "config")
            {
                auto& v = need();
                std::string text = st["text"].str();
                std::string path = st["path"].str("config.cpp");
                fileio::pathinfo pi(path, path);
                bool ok = true;
                if (st["preprocess"].boolean(true))
                {
                    auto pp = v.rt->parser_preprocessor().preprocess(*v.rt, text, pi);
                    if (!pp.has_value()) { ok = false; r.set("pp_failed", true); }
                    else text = *pp;
                }
                if (ok) ok = v.rt->parser_config().parse(v.rt->confighost(), text, pi);
                r.set("ok", ok);
            }
            else if (op == "sqf")
            {
                auto& v = need();
                std::string text = st["text"].str();
                std::string path = st["path"].str("main.sqf");
                fileio::pathinfo pi(st["phys"].str(path), path);
                bool ok = true;
                if (st["preprocess"].boolean(false))
                {
                    auto pp = v.rt->parser_preprocessor().preprocess(*v.rt, text, pi);
                    if (!pp.has_value()) { ok = false; r.set("pp_failed", true); }
                    else text = *pp;
                }
                if (ok)
                {
                    auto set = v.rt->parser_sqf().parse(*v.rt, text, pi);
                    if (!set.has_value()) { ok = false; r.set("parse_failed", true); }
                    else
                    {
                        auto ctx = v.rt->context_create().lock();
                        ctx->push_frame({ v.rt->default_value_scope(), *set });
                        ctx->can_suspend(st["suspendable"].boolean(false));
                        if (st.has("name")) ctx->name(st["name"].str());
                        r.set("instructions", (long long)set->size());
                    }
                }
                r.set("ok", ok);
            }
            else if (op == "exec")
            {
                auto& v = need();
                auto res = v.rt->execute(action_of(st["action"].str()));
                r.set("r", (int)res);
                r.set("state", state_name(v.rt->runtime_state()));
                r.set("nctx", (long long)(v.rt->context_end() - v.rt->context_begin()));
                r.set("error_flag", v.rt->__runtime_error());
                if (st["detail"].boolean(false)) r.set("vm", vm_state(v));
            }
            else if (op == "state")
            {
                r.set("vm", vm_state(need()));
            }
            else if (op == "clock")
            {
                if (st.has("add_us")) g_clock.now_us += st["add_us"].i64();
                if (st.has("set_us")) g_clock.now_us = st["set_us"].i64();
                if (st.has("tick_us")) g_clock.tick_us = st["tick_us"].i64();
            }
            else if (op == "eval")
            {
                auto& v = need();
                bool success = false;
                auto val = v.rt->evaluate_expression(st["text"].str(), success, false);
                r.set("success", success);
                r.set("value", val.to_string_sqf());
            }
            else if (op == "reset_timestamp")
            {
                need().rt->runtime_timestamp_reset();
            }
            else throw std::runtime_error("unknown step op " + op);
            r.set("instr", g_cnt.instr - instr0);
            r.set("t_us", (long long)g_clock.now_us);
            r.set("dt_us", (long long)g_clock.now_us - t0);
            results.push(r);
        }
        g_step = (int)steps.size();
        auto out = js::val::object();
        out.set("steps", results);
        if (req["monitor"].boolean(false)) out.set("monitor", monitor_report());
        if (req["slice_trace"].boolean(false)) out.set("slices", slice_trace());
        out.set("clock_calls", (long long)g_clock.calls);
        vms.clear();
        out.set("log", log_to_json(0));
        verif::g_hooks.on_event = nullptr; verif::g_hooks.slice = 0;
        return out;
    }

    // ---- parse: texts -> instruction listing (recursive into code literals) ----
    static void list_set(const instruction_set& set, js::val& out)
    {
        for (auto it = set.begin(); it != set.end(); ++it)
        {
            // code literals are listed recursively: ["CODE", [...]]
            if (auto p = dynamic_cast<const sqf::opcodes::push*>(it->get()))
            {
                auto v = p->value();
                if (!v.empty() && v.is<sqf::runtime::t_code>())
                {
                    auto inner = js::val::array();
                    list_set(v.data<sqf::types::d_code>()->value(), inner);
                    auto c = js::val::array(); c.push("CODE"); c.push(inner);
                    out.push(c);
                    continue;
                }
            }
            out.push((*it)->to_string());
        }
    }
    static std::unique_ptr<vm> g_parse_vm;
    static std::string g_parse_vm_key;
    js::val mode_parse(const js::val& req)
    {
        vmconf c = conf_from_json(req["conf"]);
        std::string key = c.ops + (c.synth ? "+s" : "");
        if (!g_parse_vm || g_parse_vm_key != key || req["fresh"].boolean(false)) { g_parse_vm = make_vm(0, c); g_parse_vm_key = key; }
        auto& v = *g_parse_vm;
        auto out = js::val::array();
        auto& texts = req["texts"];
        bool want_loc = req["loc"].boolean(false);
        for (size_t i = 0; i < texts.size(); i++)
        {
            g_log.clear();
            auto o = js::val::object();
            fileio::pathinfo pi(std::string("p.sqf"), std::string("p.sqf"));
            auto set = v.rt->parser_sqf().parse(*v.rt, texts[i].str(), pi);
            o.set("ok", set.has_value());
            if (set.has_value())
            {
                auto l = js::val::array();
                list_set(*set, l);
                o.set("asm", l);
                if (want_loc)
                {
                    auto locs = js::val::array();
                    for (auto it = set->begin(); it != set->end(); ++it)
                    {
                        auto d = (*it)->diag_info();
                        auto lo = js::val::array(); lo.push((long long)d.line); lo.push((long long)d.column); lo.push((long long)d.file_offset);
                        locs.push(lo);
                    }
                    o.set("locs", locs);
                }
            }
            if (!g_log.empty()) o.set("log", log_to_json(0));
            out.push(o);
        }
        auto res = js::val::object();
        res.set("items", out);
        return res;
    }

    // ---- eval: run each text to completion on one VM (in-process), report value / logs ----
    js::val mode_eval(const js::val& req)
    {
        vmconf c = conf_from_json(req["conf"]);
        g_clock.reset();
        std::unique_ptr<vm> v;
        bool per_case_vm = req["fresh_vm"].boolean(false);
        g_clock.tick_us = req["tick_us"].i64(0);
        auto setup = [&](vm& m) {
            if (req.has("maps")) for (size_t k = 0; k < req["maps"].size(); k++) m.rt->fileio().add_mapping(req["maps"][k][0].str(), req["maps"][k][1].str());
            if (req.has("config"))
            {
                fileio::pathinfo cpi(std::string("config.cpp"), std::string("config.cpp"));
                m.rt->parser_config().parse(m.rt->confighost(), req["config"].str(), cpi);
            }
        };
        if (!per_case_vm) { v = make_vm(0, c); setup(*v); }
        install_hooks(false, false, 0);
        auto out = js::val::array();
        auto& texts = req["texts"];
        for (size_t i = 0; i < texts.size(); i++)
        {
            if (per_case_vm) { v = make_vm(0, c); setup(*v); }
            v->rt->runtime_timestamp_reset();   // each text is a run of its own
            g_log.clear();
            auto o = js::val::object();
            fileio::pathinfo pi(std::string("e.sqf"), std::string("e.sqf"));
            std::string text = texts[i].str();
            bool ok = true;
            if (req["preprocess"].boolean(false))
            {
                auto pp = v->rt->parser_preprocessor().preprocess(*v->rt, text, pi);
                if (!pp.has_value()) { ok = false; o.set("pp_failed", true); } else text = *pp;
            }
            if (ok)
            {
                auto set = v->rt->parser_sqf().parse(*v->rt, text, pi);
                if (!set.has_value()) { ok = false; o.set("parse_failed", true); }
                else
                {
                    auto ctx = v->rt->context_create().lock();
                    ctx->push_frame({ v->rt->default_value_scope(), *set });
                    long long i0 = g_cnt.instr;
                    auto res = v->rt->execute(runtime::action::start);
                    o.set("r", (int)res);
                    o.set("instr", g_cnt.instr - i0);
                    if (res != runtime::result::empty && res != runtime::result::ok) v->rt->execute(runtime::action::abort);
                    o.set("state", state_name(v->rt->runtime_state()));
                }
            }
            o.set("ok", ok);
            o.set("log", log_to_json(0));
            out.push(o);
        }
        v.reset();
        verif::g_hooks.on_event = nullptr;
        auto res = js::val::object();
        res.set("items", out);
        return res;
    }

    js::val mode_registry(const js::val& req)
    {
        vmconf c = conf_from_json(req["conf"]);
        auto v = make_vm(0, c);
        auto& rt = *v->rt;
        auto b = js::val::array(), u = js::val::array(), n = js::val::array();
        for (auto it = rt.sqfop_binary_begin(); it != rt.sqfop_binary_end(); ++it)
        {
            auto a = js::val::array();
            a.push(std::string(it->second.name())); a.push((int)it->second.precedence());
            a.push(std::string(it->second.left_type().to_string())); a.push(std::string(it->second.right_type().to_string()));
            b.push(a);
        }
        for (auto it = rt.sqfop_unary_begin(); it != rt.sqfop_unary_end(); ++it)
        {
            auto a = js::val::array();
            a.push(std::string(it->second.name())); a.push(std::string(it->second.right_type().to_string()));
            u.push(a);
        }
        for (auto it = rt.sqfop_nular_begin(); it != rt.sqfop_nular_end(); ++it) n.push(std::string(it->second.name()));
        auto o = js::val::object();
        o.set("binary", b); o.set("unary", u); o.set("nular", n);
        return o;
    }

    // ---- pp: preprocess texts with an in-memory set of files (virtual fs backed by a scratch dir) ----
    js::val mode_pp(const js::val& req)
    {
        auto out = js::val::array();
        auto& cases = req["cases"];
        for (size_t i = 0; i < cases.size(); i++)
        {
            g_log.clear();
            auto& cs = cases[i];
            vmconf c = conf_from_json(cs["conf"]);
            if (!cs["conf"].has("ops")) c.ops = "none";
            auto v = make_vm(0, c);
            if (cs.has("maps")) for (size_t m = 0; m < cs["maps"].size(); m++) v->rt->fileio().add_mapping(cs["maps"][m][0].str(), cs["maps"][m][1].str());
            if (cs.has("defines")) for (size_t m = 0; m < cs["defines"].size(); m++)
            {
                auto& d = cs["defines"][m];
                if (d.size() > 1) v->rt->parser_preprocessor().push_back({ d[0].str(), d[1].str() });
                else v->rt->parser_preprocessor().push_back({ d[0].str() });
            }
            std::string path = cs["path"].str("main.sqf");
            fileio::pathinfo pi(cs["phys"].str(path), path);
            auto pp = v->rt->parser_preprocessor().preprocess(*v->rt, cs["text"].str(), pi);
            auto o = js::val::object();
            o.set("ok", pp.has_value());
            if (pp.has_value()) o.set("out", *pp);
            o.set("log", log_to_json(0));
            out.push(o);
        }
        auto res = js::val::object();
        res.set("items", out);
        return res;
    }
}

// ---- front: run one textual front end on each text twice (fresh state each time), report result digest ----
namespace vd
{
    static size_t digest(const std::string& s) { return std::hash<std::string>()(s); }
    static std::string log_digest()
    {
        std::string d;
        for (auto& r : g_log) { d += std::to_string(r.level) + ":" + std::to_string(r.code) + ":" + std::to_string(r.line) + ":" + std::to_string(r.col) + ";"; }
        return d;
    }
    static std::unique_ptr<vm> g_front_vm;
    js::val mode_front(const js::val& req)
    {
        std::string fe = req["fe"].str();
        auto out = js::val::array();
        auto& texts = req["texts"];
        vmconf none; none.ops = "none";
        vmconf full; full.ops = "full";
        if (fe == "sqf" || fe == "assembly") { if (!g_front_vm) g_front_vm = make_vm(0, full); }
        for (size_t i = 0; i < texts.size(); i++)
        {
            std::string text = texts[i].str();
            auto o = js::val::object();
            std::string d[2];
            bool okv[2] = { false, false };
            int nerr[2] = { 0, 0 };
            for (int run = 0; run < 2; run++)
            {
                g_log.clear();
                fileio::pathinfo pi(std::string("in.sqf"), std::string("in.sqf"));
                std::string res;
                bool ok = false;
                if (fe == "pp")
                {
                    auto v = make_vm(0, none);
                    auto pp = v->rt->parser_preprocessor().preprocess(*v->rt, text, pi);
                    ok = pp.has_value(); if (ok) res = *pp;
                }
                else if (fe == "sqf")
                {
                    auto set = g_front_vm->rt->parser_sqf().parse(*g_front_vm->rt, text, pi);
                    ok = set.has_value();
                    if (ok) { auto l = js::val::array(); list_set(*set, l); res = js::dump(l); }
                }
                else if (fe == "assembly")
                {
                    sqf::parser::assembly::parser p(*g_front_vm->logger);
                    auto set = p.parse(*g_front_vm->rt, text, pi);
                    ok = set.has_value();
                    if (ok) { auto l = js::val::array(); list_set(*set, l); res = js::dump(l); }
                }
                else if (fe == "config")
                {
                    auto v = make_vm(0, none);
                    ok = v->rt->parser_config().parse(v->rt->confighost(), text, pi);
                    res = std::to_string(v->rt->confighost().m_containers.size());
                }
                else throw std::runtime_error("unknown front end " + fe);
                okv[run] = ok;
                for (auto& r : g_log) if (r.level <= 1) nerr[run]++;
                d[run] = (ok ? "1" : "0") + std::to_string(digest(res)) + "|" + log_digest();
            }
            o.set("ok", okv[0]);
            o.set("nerr", nerr[0]);
            o.set("same", d[0] == d[1]);
            out.push(o);
        }
        auto res = js::val::object();
        res.set("items", out);
        return res;
    }
}

// ---- roundtrip: code text -> compiled -> str -> recompiled; pretty printer; exact literal values ----
#include "parser/sqf/sqf_formatter.h"
#include "runtime/d_scalar.h"
#include <sstream>
namespace vd
{
    static void list_set_exact(const instruction_set& set, js::val& out)
    {
        for (auto it = set.begin(); it != set.end(); ++it)
        {
            if (auto p = dynamic_cast<const sqf::opcodes::push*>(it->get()))
            {
                auto v = p->value();
                if (!v.empty() && v.is<sqf::runtime::t_code>())
                {
                    auto inner = js::val::array();
                    list_set_exact(v.data<sqf::types::d_code>()->value(), inner);
                    auto c = js::val::array(); c.push("CODE"); c.push(inner);
                    out.push(c);
                    continue;
                }
                if (!v.empty() && v.is<sqf::runtime::t_scalar>())
                {
                    char buf[64]; snprintf(buf, sizeof buf, "PUSH %.9g", (double)v.data<sqf::types::d_scalar>()->value());
                    out.push(std::string(buf));
                    continue;
                }
            }
            out.push((*it)->to_string());
        }
    }
    js::val mode_roundtrip(const js::val& req)
    {
        vmconf c = conf_from_json(req["conf"]);
        static std::unique_ptr<vm> v;
        static std::string vkey;
        std::string key = c.ops + (c.synth ? "+s" : "");
        if (!v || vkey != key) { v = make_vm(0, c); vkey = key; }
        auto out = js::val::array();
        auto& texts = req["texts"];
        std::string what = req["what"].str("code");
        for (size_t i = 0; i < texts.size(); i++)
        {
            g_log.clear();
            auto o = js::val::object();
            std::string text = texts[i].str();
            fileio::pathinfo pi(std::string("r.sqf"), std::string("r.sqf"));
            auto set = v->rt->parser_sqf().parse(*v->rt, text, pi);
            o.set("ok", set.has_value());
            if (set.has_value())
            {
                auto a1 = js::val::array();
                if (what == "exact") { list_set_exact(*set, a1); o.set("a1", a1); }
                else if (what == "code")
                {
                    list_set(*set, a1); o.set("a1", a1);
                    auto code = std::make_shared<sqf::types::d_code>(*set);
                    std::string s = code->to_string_sqf();
                    o.set("str", s);
                    auto set2 = v->rt->parser_sqf().parse(*v->rt, s, pi);
                    o.set("ok2", set2.has_value());
                    if (set2.has_value())
                    {
                        auto a2 = js::val::array(); list_set(*set2, a2); o.set("a2", a2);
                        // value-level equality of the recompiled block with the original
                        bool eq = false;
                        if (set2->size() == 1)
                        {
                            if (auto p = dynamic_cast<const sqf::opcodes::push*>(set2->begin()->get()))
                                eq = sqf::runtime::value(code) == p->value();
                        }
                        o.set("value_equal", eq);
                    }
                }
                else if (what == "pretty")
                {
                    list_set(*set, a1); o.set("a1", a1);
                    std::ostringstream pretty;
                    sqf::parser::sqf::formatter fmt(*v->rt, text, pi);
                    fmt.prettify(fmt.getRes(), 0, pretty);
                    std::string s = pretty.str();
                    o.set("str", s);
                    auto set2 = v->rt->parser_sqf().parse(*v->rt, s, pi);
                    o.set("ok2", set2.has_value());
                    if (set2.has_value()) { auto a2 = js::val::array(); list_set(*set2, a2); o.set("a2", a2); }
                }
            }
            if (!g_log.empty()) o.set("log", log_to_json(0));
            out.push(o);
        }
        auto res = js::val::object();
        res.set("items", out);
        return res;
    }
}

// ---- values: evaluate expressions, report type, str and value::hash() of each (C07) ----
namespace vd
{
    js::val mode_values(const js::val& req)
    {
        vmconf c = conf_from_json(req["conf"]);
        auto v = make_vm(0, c);
        g_log.clear();
        if (req.has("prelude"))
        {
            bool ok = false;
            v->rt->evaluate_expression(req["prelude"].str(), ok, false);
        }
        auto out = js::val::array();
        auto& texts = req["texts"];
        std::vector<sqf::runtime::value> vals;
        for (size_t i = 0; i < texts.size(); i++)
        {
            bool ok = false;
            auto val = v->rt->evaluate_expression(texts[i].str(), ok, false);
            vals.push_back(val);
            auto o = js::val::object();
            o.set("ok", ok);
            o.set("type", value_kind(val));
            o.set("str", val.to_string_sqf());
            o.set("hash", std::to_string(val.hash()));
            out.push(o);
        }
        // C++-level equality matrix (value::operator==) for cross-checking the operators
        auto eq = js::val::array();
        for (size_t i = 0; i < vals.size(); i++)
        {
            std::string row;
            for (size_t j = 0; j < vals.size(); j++) row.push_back(vals[i] == vals[j] ? '1' : '0');
            eq.push(row);
        }
        auto res = js::val::object();
        res.set("items", out);
        res.set("eq", eq);
        return res;
    }
}

// ---- pbo: open an archive with the real reader, list it and read every entry through the virtual file system ----
namespace vd
{
    js::val mode_pbo(const js::val& req)
    {
        g_log.clear();
        vmconf c; c.ops = "none";
        auto v = make_vm(0, c);
        auto out = js::val::object();
        std::string path = req["path"].str();
        rvutils::pbo::pbofile pbo{ std::filesystem::path(path) };
        out.set("good", pbo.good());
        if (pbo.good())
        {
            auto attrs = js::val::array();
            for (auto& a : pbo.attributes()) { auto p = js::val::array(); p.push(a.first); p.push(a.second); attrs.push(p); }
            out.set("attributes", attrs);
            auto files = js::val::array();
            for (auto& f : pbo.files()) { auto o = js::val::object(); o.set("name", f.name); o.set("size", (long long)f.size); files.push(o); }
            out.set("files", files);
            auto& fio = static_cast<sqf::fileio::impl_default&>(v->rt->fileio());
            fio.add_pbo_mapping(pbo);
            auto reads = js::val::array();
            auto& names = req["read"];
            for (size_t i = 0; i < names.size(); i++)
            {
                auto o = js::val::object();
                std::string vp = names[i].str();
                o.set("path", vp);
                auto info = fio.get_info(vp, {});
                o.set("found", info.has_value());
                if (info.has_value())
                {
                    auto content = fio.read_file(*info);
                    o.set("content", content);
                }
                reads.push(o);
            }
            out.set("reads", reads);
        }
        out.set("log", log_to_json(0));
        return out;
    }
}

// ---- api: histories of C API calls (C18) ----
#include "export/sqfvm.h"
#include <cstring>
namespace vd
{
    struct cbrec { long long ud, cd; int sev; std::string msg; };
    static std::vector<cbrec> g_cb;
    static void* g_api_running = nullptr;         // instance whose sqfvm_call is in progress (for re-entrant requests from the callback)
    static std::vector<int> g_reenter;
    static void api_cb(void* user_data, void* call_data, int32_t severity, const char* message, uint32_t length)
    {
        g_cb.push_back({ (long long)(intptr_t)user_data, (long long)(intptr_t)call_data, severity, std::string(message ? message : "", message ? length : 0) });
        // a host that reacts to a message by asking the SAME instance for something while its call is still executing
        if (g_api_running && message && g_cb.back().msg.find("REENTER:call") != std::string::npos)
        {
            void* h = g_api_running;
            g_api_running = nullptr;     // one level only
            const char* nested = "diag_log \"nested\"";
            g_reenter.push_back((int)sqfvm_call(h, (void*)(intptr_t)999, 's', nested, (uint32_t)std::strlen(nested)));
            g_reenter.push_back((int)sqfvm_status(h));
            g_api_running = h;
        }
    }
    js::val mode_api(const js::val& req)
    {
        g_clock.reset();
        g_clock.tick_us = req["tick_us"].i64(0);
        g_cb.clear();
        std::map<int, void*> inst;
        auto out = js::val::array();
        auto& steps = req["steps"];
        char foreign[64] = { 'X', 'Q', 'F', 'E', 0 };
        for (size_t i = 0; i < steps.size(); i++)
        {
            auto& st = steps[i];
            std::string op = st["op"].str();
            int h = (int)st["h"].i64(0);
            auto r = js::val::object();
            size_t cb0 = g_cb.size();
            void* handle = nullptr;
            std::string hk = st["handle"].str("live");
            if (hk == "live") { auto it = inst.find(h); handle = it == inst.end() ? nullptr : it->second; }
            else if (hk == "null") handle = nullptr;
            else if (hk == "foreign") handle = foreign;
            if (op == "create")
            {
                std::string kind = st["kind"].str("full");
                float mr = (float)st["max_runtime"].num(0);
                void* p = kind == "full" ? sqfvm_create_instance((void*)(intptr_t)st["ud"].i64(0), api_cb, mr)
                    : kind == "basic" ? sqfvm_create_instance_basic((void*)(intptr_t)st["ud"].i64(0), api_cb, mr)
                    : sqfvm_create_instance_empty((void*)(intptr_t)st["ud"].i64(0), api_cb, mr);
                inst[h] = p;
                r.set("ok", p != nullptr);
            }
            else if (op == "destroy")
            {
                if (handle) sqfvm_destroy_instance(handle);
                inst.erase(h);
            }
            else if (op == "destroy_raw")
            {   // whatever the handle is (NULL, memory that is no instance)
                sqfvm_destroy_instance(handle);
                r.set("code", -1);
            }
            else if (op == "load_config")
            {
                std::string t = st["text"].str();
                r.set("code", (int)sqfvm_load_config(handle, t.data(), (uint32_t)t.size()));
            }
            else if (op == "call")
            {
                std::string t = st["text"].str();
                std::string ty = st["type"].str("s");
                g_reenter.clear();
                g_api_running = handle;
                r.set("code", (int)sqfvm_call(handle, (void*)(intptr_t)st["cd"].i64(0), ty.empty() ? 's' : ty[0], t.data(), (uint32_t)t.size()));
                g_api_running = nullptr;
                auto re = js::val::array();
                for (int c : g_reenter) re.push((long long)c);
                r.set("reenter", re);
            }
            else if (op == "status")
            {
                r.set("code", (int)sqfvm_status(handle));
            }
            else if (op == "clock")
            {
                g_clock.now_us += st["add_us"].i64(0);
            }
            else throw std::runtime_error("api: unknown op " + op);
            auto cbs = js::val::array();
            for (size_t k = cb0; k < g_cb.size(); k++)
            {
                auto c = js::val::object();
                c.set("ud", g_cb[k].ud); c.set("cd", g_cb[k].cd); c.set("sev", g_cb[k].sev); c.set("msg", g_cb[k].msg.substr(0, 400));
                cbs.push(c);
            }
            r.set("cb", cbs);
            out.push(r);
        }
        for (auto& p : inst) if (p.second) sqfvm_destroy_instance(p.second);
        auto res = js::val::object();
        res.set("steps", out);
        return res;
    }
}
