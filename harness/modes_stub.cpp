// Placeholders replaced as the modes are implemented.
#include "driver.h"
namespace vd
{




}
