// Placeholders replaced as the modes are implemented.
#include "driver.h"
namespace vd
{

    __attribute__((weak)) js::val mode_mt(const js::val&) { throw std::runtime_error("mt: not implemented"); }


}
