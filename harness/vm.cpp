// VM construction, synthetic operators, hook installation, instruction-boundary monitor.
#include "driver.h"
#include "runtime/d_array.h"
#include "runtime/d_string.h"
#include "runtime/d_scalar.h"
#include "runtime/d_boolean.h"
#include "runtime/d_code.h"

using namespace sqf::runtime;
using namespace sqf::types;

namespace vd
{
    counters g_cnt;

    vmconf conf_from_json(const js::val& v)
    {
        vmconf c;
        if (v.has("ops")) c.ops = v["ops"].str();
        c.max_runtime_ms = v["max_runtime_ms"].i64(0);
        c.loop_cap = v["loop_cap"].i64(10000);
        c.print_work = v["print_work"].boolean(true);
        c.disable_sleep = v["disable_sleep"].boolean(false);
        c.classname_check = v["classname_check"].boolean(true);
        c.synth = v["synth"].boolean(false);
        c.trace = v["trace"].boolean(false);
        return c;
    }

    // ---- synthetic operators: result is the call tree as an array, so evaluation order and
    // grouping are observable at value level ----
    template<int P> static value syn_b(runtime&, value::cref l, value::cref r)
    { return value(std::make_shared<d_array>(std::vector<value>{ value("vb" + std::to_string(P)), l, r })); }
    template<int P> static value syn_bu_b(runtime&, value::cref l, value::cref r)
    { return value(std::make_shared<d_array>(std::vector<value>{ value("vbu" + std::to_string(P)), l, r })); }
    template<int P> static value syn_bu_u(runtime&, value::cref r)
    { return value(std::make_shared<d_array>(std::vector<value>{ value("vbu" + std::to_string(P)), r })); }
    static value syn_u(runtime&, value::cref r) { return value(std::make_shared<d_array>(std::vector<value>{ value("vu"), r })); }
    static value syn_n(runtime&) { return value(std::make_shared<d_array>(std::vector<value>{ value("vn") })); }
    static value syn_un_u(runtime&, value::cref r) { return value(std::make_shared<d_array>(std::vector<value>{ value("vun"), r })); }
    static value syn_un_n(runtime&) { return value(std::make_shared<d_array>(std::vector<value>{ value("vun") })); }

    template<int P> static void reg_level(runtime& rt)
    {
        rt.register_sqfop(sqfop::binary(P, "vb" + std::to_string(P), t_any(), t_any(), "synthetic", syn_b<P>));
        rt.register_sqfop(sqfop::binary(P, "vbu" + std::to_string(P), t_any(), t_any(), "synthetic", syn_bu_b<P>));
        rt.register_sqfop(sqfop::unary("vbu" + std::to_string(P), t_any(), "synthetic", syn_bu_u<P>));
    }
    void register_synth_ops(runtime& rt)
    {
        reg_level<1>(rt); reg_level<2>(rt); reg_level<3>(rt); reg_level<4>(rt); reg_level<5>(rt);
        reg_level<6>(rt); reg_level<7>(rt); reg_level<8>(rt); reg_level<9>(rt); reg_level<10>(rt);
        rt.register_sqfop(sqfop::unary("vu", t_any(), "synthetic", syn_u));
        rt.register_sqfop(sqfop::nular("vn", "synthetic", syn_n));
        rt.register_sqfop(sqfop::unary("vun", t_any(), "synthetic", syn_un_u));
        rt.register_sqfop(sqfop::nular("vun", "synthetic", syn_un_n));
    }

    std::unique_ptr<vm> make_vm(int id, const vmconf& c)
    {
        auto v = std::make_unique<vm>();
        v->id = id;
        v->logger = std::make_unique<reclogger>(id);
        v->logger->setEnabled(loglevel::verbose, c.trace);
        v->logger->setEnabled(loglevel::trace, c.trace);
        runtime::runtime_conf conf;
        conf.max_runtime = std::chrono::milliseconds(c.max_runtime_ms);
        conf.disable_sleep = c.disable_sleep;
        conf.enable_classname_check = c.classname_check;
        conf.disable_networking = true;
        conf.print_context_work_to_log_on_exit = c.print_work;
        conf.max_loop_iterations_in_unscheduled = (size_t)c.loop_cap;
        v->rt = std::make_unique<runtime>(*v->logger, conf);
        auto& rt = *v->rt;
        rt.fileio(std::make_unique<sqf::fileio::impl_default>(*v->logger));
        rt.parser_config(std::make_unique<sqf::parser::config::parser>(*v->logger));
        rt.parser_preprocessor(std::make_unique<sqf::parser::preprocessor::impl_default>(*v->logger));
        rt.parser_sqf(std::make_unique<sqf::parser::sqf::parser>(*v->logger));
        if (c.ops == "full") { sqf::operators::ops(rt); }
        else if (c.ops == "basic")
        {
            sqf::operators::ops_config(rt); sqf::operators::ops_diag(rt); sqf::operators::ops_generic(rt);
            sqf::operators::ops_logic(rt); sqf::operators::ops_math(rt); sqf::operators::ops_namespace(rt);
            sqf::operators::ops_sqfvm(rt); sqf::operators::ops_string(rt); sqf::operators::ops_text(rt);
            sqf::operators::ops_osspecific(rt); sqf::operators::ops_hashmap(rt);
        }
        if (c.synth) register_synth_ops(rt);
        return v;
    }

    // ================= hooks: counters, stack monitor (C05), slice trace (C12) =================
    struct shadow_frame { size_t base; std::vector<const void*> below; const void* code = nullptr; };   // code: first instruction of the frame's instruction set
    struct ctx_shadow { std::vector<shadow_frame> frames; };
    static bool g_monitor = false, g_trace = false;
    static std::map<const void*, ctx_shadow> g_shadow;   // per context
    static std::map<const void*, int> g_ctx_ids;
    static int g_next_ctx_id = 0;
    static js::val g_violations = js::val::array();
    static long long g_mon_states = 0, g_mon_checks = 0;
    static size_t g_max_height = 0, g_max_depth = 0;
    static js::val g_slices = js::val::array();
    static long long g_slice_instr0 = 0;
    static js::val g_cur_slice;
    static std::string g_last_instr;

    static int ctx_id(const void* p)
    {
        auto it = g_ctx_ids.find(p);
        if (it != g_ctx_ids.end()) return it->second;
        int n = g_next_ctx_id++;      // never reused: a freed context's address may be handed out again
        g_ctx_ids[p] = n;
        return n;
    }
    static void violation(const char* kind, runtime& rt, const std::string& detail)
    {
        if (g_violations.size() >= 20) return;
        auto o = js::val::object();
        o.set("kind", kind);
        o.set("detail", detail);
        o.set("instr_no", g_cnt.instr);
        o.set("last_instr", g_last_instr);
        g_violations.push(o);
    }
    static std::vector<const void*> snap(context& c, size_t n)
    {
        std::vector<const void*> v; v.reserve(n);
        size_t i = 0;
        for (auto it = c.values_begin(); it != c.values_end() && i < n; ++it, ++i) v.push_back(it->data().get());
        return v;
    }
    static bool prefix_same(context& c, const std::vector<const void*>& s)
    {
        if (c.values_size() < s.size()) return false;
        size_t i = 0;
        for (auto it = c.values_begin(); i < s.size(); ++it, ++i) if (it->data().get() != s[i]) return false;
        return true;
    }
    static void monitor_sync(runtime& rt, bool frame_done)
    {
        auto sp = rt.context_active_as_shared();
        if (!sp) return;
        context& c = *sp;
        auto& sh = g_shadow[sp.get()];
        g_mon_states++;
        // collect live frame bases bottom-up
        std::vector<size_t> bases;
        std::vector<const void*> codes;
        for (auto it = c.frames_rbegin(); it != c.frames_rend(); ++it)
        {
            bases.push_back(it->value_stack_pos());
            codes.push_back(it->m_instruction_set.empty() ? nullptr : (const void*)it->m_instruction_set.begin()->get());
        }
        std::reverse(bases.begin(), bases.end());
        std::reverse(codes.begin(), codes.end());
        size_t n = bases.size();
        if (n > g_max_depth) g_max_depth = n;
        if (c.values_size() > g_max_height) g_max_height = c.values_size();
        // I1: bases monotone and within the stack
        for (size_t i = 0; i < n; i++)
        {
            g_mon_checks++;
            if ((i > 0 && bases[i] < bases[i - 1]) || bases[i] > c.values_size())
            {
                violation("I1-base-order", rt, "frame " + std::to_string(i) + " base " + std::to_string(bases[i]) + " height " + std::to_string(c.values_size()));
                break;
            }
        }
        // removed frames
        size_t common = std::min(n, sh.frames.size());
        size_t same = 0;
        while (same < common && sh.frames[same].base == bases[same]) same++;
        if (same < sh.frames.size())
        {
            // frames [same, end) of the shadow are gone (or re-based)
            auto& low = sh.frames[same];
            g_mon_checks++;
            if (frame_done)
            {
                // normal completion: called after pop_frame, before the single result is pushed back
                if (sh.frames.size() - same == 1 && n == same)
                {
                    if (c.values_size() != low.base || !prefix_same(c, low.below))
                        violation("I3-frame-done-residue", rt, "height " + std::to_string(c.values_size()) + " expected " + std::to_string(low.base));
                }
            }
            else if (n <= same || true)
            {
                // frames removed by early exit / unwinding (possibly with new frames pushed on top in the same instruction)
                size_t limit = low.base + 1;
                size_t new_floor = n > same ? bases[same] : c.values_size();
                // The frame that survives on top may have been given other code in the same step (a handler block taking
                // over: try-catch, except__). Its own pending operands are then dropped by design; everything below ITS base
                // still has to be untouched.
                bool handler_took_over = same > 0 && same <= n && codes[same - 1] != sh.frames[same - 1].code;
                if (handler_took_over)
                {
                    std::vector<const void*> keep(low.below.begin(), low.below.begin() + std::min(low.below.size(), sh.frames[same - 1].base));
                    if (!prefix_same(c, keep))
                        violation("I2-enclosing-operands-changed", rt, "after unwinding to a handler");
                    sh.frames[same - 1].code = codes[same - 1];
                }
                else if (!prefix_same(c, low.below))
                    violation("I2-enclosing-operands-changed", rt, "after frame removal");
                else if (new_floor > limit)
                    violation("I3-removed-frames-left-operands", rt, "height " + std::to_string(new_floor) + " > base " + std::to_string(low.base) + " + 1");
            }
            sh.frames.resize(same);
        }
        // I2: operands below every live frame unchanged
        for (size_t i = 0; i < sh.frames.size(); i++)
        {
            g_mon_checks++;
            if (!prefix_same(c, sh.frames[i].below))
            {
                violation("I2-enclosing-operands-changed", rt, "below frame " + std::to_string(i));
                // resnapshot to avoid repeating
                sh.frames[i].below = snap(c, sh.frames[i].base);
            }
        }
        // new frames
        for (size_t i = sh.frames.size(); i < n; i++)
        {
            shadow_frame f; f.base = bases[i]; f.below = snap(c, std::min(bases[i], c.values_size())); f.code = codes[i];
            sh.frames.push_back(std::move(f));
        }
        // the code a live frame runs as of this boundary (loops and switch exchange it in normal operation)
        for (size_t i = 0; i < sh.frames.size() && i < n; i++) sh.frames[i].code = codes[i];
    }

    static void on_event(verif::event k, runtime& rt)
    {
        switch (k)
        {
        case verif::event::instruction_executed:
            g_cnt.instr++;
            if (g_monitor)
            {
                auto sp = rt.context_active_as_shared();
                if (sp && !sp->empty())
                {
                    auto& f = sp->current_frame();
                    // position may be out of range after frame manipulation; guard
                    g_last_instr.clear();
                }
            }
            break;
        case verif::event::instruction_done:
            if (g_monitor) monitor_sync(rt, false);
            break;
        case verif::event::frame_done:
            g_cnt.frames_done++;
            if (g_monitor) monitor_sync(rt, true);
            break;
        case verif::event::slice_begin:
            g_cnt.slices++;
            if (g_trace)
            {
                auto sp = rt.context_active_as_shared();
                g_cur_slice = js::val::object();
                g_cur_slice.set("ctx", ctx_id(sp.get()));
                g_cur_slice.set("name", sp->name());
                g_cur_slice.set("susp", sp->suspended());
                g_cur_slice.set("t_us", (long long)g_clock.now_us);
                g_cur_slice.set("nctx", (long long)(rt.context_end() - rt.context_begin()));
                g_slice_instr0 = g_cnt.instr;
            }
            break;
        case verif::event::slice_end:
            if (g_trace)
            {
                g_cur_slice.set("n", g_cnt.instr - g_slice_instr0);
                auto sp = rt.context_active_as_shared();
                g_cur_slice.set("susp_after", sp ? sp->suspended() : false);
                g_cur_slice.set("empty_after", sp ? sp->empty() : true);
                g_slices.push(g_cur_slice);
            }
            break;
        case verif::event::context_erased:
            if (g_trace && g_slices.size() > 0) { (*g_slices.a)[g_slices.size() - 1].set("erased", true); }
            if (g_monitor) { auto sp = rt.context_active_as_shared(); g_shadow.erase(sp.get()); }
            { auto sp = rt.context_active_as_shared(); g_ctx_ids.erase(sp.get()); }
            break;
        default: break;
        }
    }

    void install_hooks(bool monitor, bool slice_trace_on, size_t slice)
    {
        g_monitor = monitor; g_trace = slice_trace_on;
        g_shadow.clear(); g_ctx_ids.clear(); g_next_ctx_id = 0;
        g_violations = js::val::array(); g_slices = js::val::array();
        g_mon_states = g_mon_checks = 0; g_max_height = g_max_depth = 0;
        g_cnt = counters();
        verif::g_hooks.on_event = on_event;
        verif::g_hooks.slice = slice;
    }
    js::val monitor_report()
    {
        auto o = js::val::object();
        o.set("violations", g_violations);
        o.set("states", g_mon_states);
        o.set("checks", g_mon_checks);
        o.set("max_height", (long long)g_max_height);
        o.set("max_depth", (long long)g_max_depth);
        return o;
    }
    js::val slice_trace() { return g_slices; }

    std::string value_kind(const value& v)
    {
        if (v.empty()) return "NOTHING";
        return std::string(v.type().to_string());
    }
}
