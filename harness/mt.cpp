// mt: two-thread exploration on the real runtime (C19 concurrent part, C20 concurrent part).
// Token-passing scheduler over the guarded SQFVM_VERIF_POINT hooks + iterative context bounding (CHESS style).
#include "driver.h"
#include "runtime/d_array.h"

#include <thread>
#include <mutex>
#include <condition_variable>
#include <set>
#include <cstring>

using namespace sqf::runtime;

namespace vd
{
    struct sched
    {
        std::mutex mu; std::condition_variable cv;
        int nthreads = 0; int running = -1;       // thread holding the token; -2 = all done; -3 = livelock
        std::vector<bool> done, arrived, spinning;
        std::vector<const char*> tag;
        std::vector<int> prefix; size_t pos = 0;
        struct pt { std::vector<int> enabled; int chosen; int prev; bool prev_enabled; bool forced; const char* at = ""; };
        std::vector<pt> points;
        int only_spinners = 0;
        bool divergence = false;
        static thread_local int me;

        void reset(int n, std::vector<int> pre)
        {
            nthreads = n; running = -1; done.assign(n, false); arrived.assign(n, false); spinning.assign(n, false);
            tag.assign(n, "init"); prefix = std::move(pre); pos = 0; points.clear(); only_spinners = 0; divergence = false;
        }
        // mu held. Choose the next thread.
        void pick(int prev)
        {
            std::vector<int> en;
            bool prev_enabled = prev >= 0 && !done[prev];
            // canonical order: the running thread first if it may continue (a spinner has to yield), then ascending ids
            bool prev_may_continue = prev_enabled && !spinning[prev];
            if (prev_may_continue) en.push_back(prev);
            for (int i = 0; i < nthreads; i++) if (i != prev && !done[i]) en.push_back(i);
            if (!prev_may_continue && prev_enabled) en.push_back(prev);     // a spinner is tried last
            if (en.empty()) { running = -2; cv.notify_all(); return; }
            bool all_spin = true;
            for (int i : en) if (!spinning[i]) all_spin = false;
            if (all_spin) { if (++only_spinners > 2000) { running = -3; cv.notify_all(); return; } }
            else only_spinners = 0;
            if (points.size() > 20000) { running = -3; cv.notify_all(); return; }     // horizon: the execution does not come to an end
            int c = 0;
            if (pos < prefix.size()) { c = prefix[pos]; if (c >= (int)en.size()) { divergence = true; c = 0; } }
            pos++;
            points.push_back({ en, c, prev, prev_enabled, !prev_may_continue, prev >= 0 ? tag[prev] : "go" });
            running = en[c];
            cv.notify_all();
        }
        void point(const char* t)
        {
            std::unique_lock<std::mutex> lk(mu);
            tag[me] = t;
            spinning[me] = std::strncmp(t, "spin:", 5) == 0;
            pick(me);
            cv.wait(lk, [&] { return running == me || running == -3; });
            if (running == -3) { lk.unlock(); while (true) std::this_thread::sleep_for(std::chrono::hours(1)); }
        }
        void thread_start(int id)
        {
            me = id;
            std::unique_lock<std::mutex> lk(mu);
            arrived[id] = true; cv.notify_all();
            cv.wait(lk, [&] { return running == id; });
        }
        void thread_end()
        {
            std::unique_lock<std::mutex> lk(mu);
            done[me] = true; spinning[me] = false;
            pick(me);
        }
        // returns false on livelock
        bool go()
        {
            std::unique_lock<std::mutex> lk(mu);
            cv.wait(lk, [&] { for (int i = 0; i < nthreads; i++) if (!arrived[i]) return false; return true; });
            pick(-1);
            cv.wait(lk, [&] { return running == -2 || running == -3; });
            return running == -2;
        }
    };
    thread_local int sched::me = -1;
    static sched* S = nullptr;

    static std::atomic<int> g_inside{ 0 };
    static std::atomic<int> g_max_inside{ 0 };
    static std::atomic<long> g_instr{ 0 };
    static std::atomic<long> g_turns{ 0 };      // scheduler turns (slice_begin events) of the executor
    static thread_local bool t_evaluating = false;
    static void hook_point(const char* t) { if (S && sched::me >= 0) S->point(t); }
    static void hook_event(verif::event k, runtime& rt)
    {
        if (k == verif::event::guard_enter) { int v = ++g_inside; int m = g_max_inside.load(); while (v > m && !g_max_inside.compare_exchange_weak(m, v)) {} }
        else if (k == verif::event::guard_leave) --g_inside;
        else if (k == verif::event::slice_begin) ++g_turns;
        else if (k == verif::event::instruction_executed) { if (!t_evaluating) ++g_instr; }   // instructions of the evaluated expression are not the script's
    }

    static runtime::action act_of(const std::string& s)
    {
        if (s == "start") return runtime::action::start;
        if (s == "stop") return runtime::action::stop;
        if (s == "abort") return runtime::action::abort;
        if (s == "assembly_step") return runtime::action::assembly_step;
        if (s == "line_step") return runtime::action::line_step;
        if (s == "leave_scope") return runtime::action::leave_scope;
        return runtime::action::invalid;
    }

    struct obs
    {
        int start_res = -9; std::vector<int> ctl_res; int final_state = -1; long instr = 0; std::vector<long> after_ok; std::vector<long> turns_after_ok; int max_inside = 0;
        size_t contexts = 0; int probe = -9; bool probe_ran = false; bool livelock = false; std::string eval_values;
        std::string key() const
        {
            std::string k = std::to_string(start_res) + "|";
            for (int c : ctl_res) k += std::to_string(c) + ",";
            k += "|" + std::to_string(final_state) + "|" + std::to_string(instr) + "|";
            for (long a : after_ok) k += std::to_string(a) + ",";
            k += "t";
            for (long a : turns_after_ok) k += std::to_string(a) + ",";
            k += "|" + std::to_string(max_inside) + "|" + std::to_string(contexts) + "|" + std::to_string(probe) + (probe_ran ? "r" : "n") + "|" + eval_values;
            return k;
        }
    };

    struct runstate
    {
        std::unique_ptr<vm> v;
        std::string script; std::vector<std::string> ctl;
        obs o; std::vector<long> instr_at; std::vector<long> turns_at; sched sc; std::atomic<bool> executor_inside{ false }; bool controlled = false;
    };
    static obs run_control(const std::string& script, const std::vector<std::string>& ctl, std::vector<int> prefix, std::vector<sched::pt>& out_points, bool& divergence, bool controlled)
    {
        // everything the two threads touch lives in one heap object: if an execution never ends the threads stay
        // parked on it and it is leaked instead of destroyed under them
        auto* rs = new runstate();
        rs->script = script; rs->ctl = ctl; rs->controlled = controlled;
        vmconf c; c.ops = "basic";
        rs->v = make_vm(0, c);
        auto& rt = *rs->v->rt;
        fileio::pathinfo pi(std::string("x.sqf"), std::string("x.sqf"));
        auto set = rt.parser_sqf().parse(rt, script, pi);
        auto ctx = rt.context_create().lock();
        ctx->push_frame({ rt.default_value_scope(), *set });
        g_inside = 0; g_max_inside = 0; g_instr = 0; g_turns = 0;
        rs->o.ctl_res.assign(ctl.size(), -9);
        rs->o.after_ok.assign(ctl.size(), -1);
        rs->o.turns_after_ok.assign(ctl.size(), -1);
        rs->instr_at.assign(ctl.size(), -1);
        rs->turns_at.assign(ctl.size(), -1);
        if (controlled) { rs->sc.reset(2, prefix); S = &rs->sc; }
        auto exec_body = [rs] {
            auto& rt = *rs->v->rt;
            if (rs->controlled) rs->sc.thread_start(0);
            rs->executor_inside = true;
            rs->o.start_res = (int)rt.execute(runtime::action::start);
            if (rs->controlled) rs->sc.thread_end();
        };
        auto ctl_body = [rs] {
            auto& rt = *rs->v->rt;
            if (rs->controlled) rs->sc.thread_start(1);
            else { while (!rs->executor_inside) std::this_thread::yield(); }
            for (size_t i = 0; i < rs->ctl.size(); i++)
            {
                if (rs->ctl[i] == "eval")
                {
                    bool ok = false;
                    t_evaluating = true;
                    auto val = rt.evaluate_expression("1 + 1", ok, true);
                    t_evaluating = false;
                    rs->o.ctl_res[i] = ok ? 0 : 1;
                    rs->o.eval_values += val.to_string_sqf() + ";";
                }
                else
                {
                    rs->o.ctl_res[i] = (int)rt.execute(act_of(rs->ctl[i]));
                    if ((rs->ctl[i] == "stop" || rs->ctl[i] == "abort") && rs->o.ctl_res[i] == 0) { rs->instr_at[i] = g_instr; rs->turns_at[i] = g_turns; }
                }
            }
            if (rs->controlled) rs->sc.thread_end();
        };
        std::thread t0(exec_body), t1(ctl_body);
        bool fine = true;
        if (controlled) fine = rs->sc.go();
        if (!fine)
        {
            t0.detach(); t1.detach();
            obs o = rs->o;
            o.livelock = true;
            { std::unique_lock<std::mutex> lk(rs->sc.mu); out_points = rs->sc.points; divergence = rs->sc.divergence; }
            if (out_points.size() > 200) out_points.erase(out_points.begin(), out_points.end() - 200);
            S = nullptr;
            return o;       // rs is leaked on purpose
        }
        t0.join(); t1.join();
        S = nullptr;
        if (controlled) { out_points = rs->sc.points; divergence = rs->sc.divergence; }
        obs& o = rs->o;
        o.final_state = (int)rt.runtime_state();
        o.instr = g_instr;
        for (size_t i = 0; i < ctl.size(); i++) if (rs->instr_at[i] >= 0) { o.after_ok[i] = g_instr - rs->instr_at[i]; o.turns_after_ok[i] = g_turns - rs->turns_at[i]; }
        o.max_inside = g_max_inside;
        o.contexts = rt.context_end() - rt.context_begin();
        // liveness probe: documented way back to empty, then a fresh script must run to completion
        auto st = rt.runtime_state();
        if (st == runtime::state::halted || st == runtime::state::halted_error) rt.execute(runtime::action::abort);
        if (rt.context_begin() != rt.context_end())
        {   // the executor's start was refused (eg. an evaluation held the executor's place): the script is still loaded and
            // not the probe's business - let it run (or fail) and discard what is left
            rt.execute(runtime::action::start);
            st = rt.runtime_state();
            if (st == runtime::state::halted || st == runtime::state::halted_error) rt.execute(runtime::action::abort);
        }
        size_t log0 = g_log.size();
        auto set2 = rt.parser_sqf().parse(rt, "diag_log \"alive\"", pi);
        auto c2 = rt.context_create().lock();
        c2->push_frame({ rt.default_value_scope(), *set2 });
        o.probe = (int)rt.execute(runtime::action::start);
        for (size_t i = log0; i < g_log.size(); i++) if (g_log[i].msg.find("alive") != std::string::npos) o.probe_ran = true;
        obs ret = o;
        delete rs;
        return ret;
    }

    struct explorer
    {
        std::string script; std::vector<std::string> ctl; int bound; long max_exec;
        long execs = 0; long points = 0; bool capped = false;
        std::map<std::string, long> outcomes;
        js::val violations = js::val::array();
        std::set<std::string> vkinds;
        void judge(const obs& o, const std::vector<sched::pt>& pts)
        {
            auto add = [&](const std::string& kind, const std::string& what) {
                if (vkinds.count(kind) || violations.size() >= 10) return;
                vkinds.insert(kind);
                auto v = js::val::object();
                v.set("kind", kind); v.set("what", what);
                std::string sch;
                for (auto& p : pts) sch += std::to_string(p.chosen);
                v.set("schedule", sch);
                violations.push(v);
            };
            if (o.livelock) { add("deadlock-or-livelock", "the execution never ends: only waiting/polling threads are left (last points: " + std::string(pts.empty() ? "" : "") + ")"); return; }
            if (o.max_inside > 1) add("two-executors", "two threads were between guard acquisition and release at the same time");
            for (size_t i = 0; i < ctl.size(); i++)
            {
                if (o.after_ok[i] > 2) add("stop-not-effective", ctl[i] + " returned ok but the executor ran " + std::to_string(o.after_ok[i]) + " more instructions");
                // ... and when no script has an instruction to run (all asleep) within a bounded number of scheduler turns
                if (o.turns_after_ok[i] > 3) add("stop-not-effective-while-asleep", ctl[i] + " returned ok but the executor went through " + std::to_string(o.turns_after_ok[i]) + " more scheduler turns");
                int rc = o.ctl_res[i];
                if (ctl[i] != "eval" && rc != 0 && rc != 1 && !((ctl[i] == "start" || ctl[i] == "assembly_step") && (rc == -1 || rc == 2))) add("undocumented-return-" + ctl[i], ctl[i] + " returned " + std::to_string(rc));
                if (ctl[i] == "eval" && rc == 0 && o.eval_values.find("2;") == std::string::npos) add("evaluate-wrong-value", "evaluate_expression(1 + 1) succeeded with " + o.eval_values);
            }
            if (o.final_state != (int)runtime::state::empty && o.final_state != (int)runtime::state::halted && o.final_state != (int)runtime::state::halted_error)
                add("final-state", "state after all actions returned is " + std::to_string(o.final_state));
            if (o.start_res == -2) add("start-invalid-result", "executor's start returned invalid");
            if (!(o.probe == -1 && o.probe_ran)) add("vm-unusable-afterwards", "after the history abort + fresh script + start returned " + std::to_string(o.probe) + (o.probe_ran ? " (ran)" : " (did not run)"));
        }
        void explore(std::vector<int> prefix)
        {
            if (execs >= max_exec) { capped = true; return; }
            std::vector<sched::pt> pts; bool div = false;
            obs o = run_control(script, ctl, prefix, pts, div, true);
            execs++; points += (long)pts.size();
            if (div) { auto v = js::val::object(); v.set("kind", "replay-divergence"); v.set("what", "a recorded schedule prefix could not be replayed (uncontrolled nondeterminism)"); if (violations.size() < 10) violations.push(v); return; }
            outcomes[o.key()]++;
            judge(o, pts);
            if (o.livelock) return;
            std::vector<int> pre(pts.size() + 1, 0);
            for (size_t i = 0; i < pts.size(); i++)
            {
                bool preempt = pts[i].prev_enabled && !pts[i].forced && pts[i].chosen != 0;
                // fairness: a polling thread has to yield; letting it poll again although another thread could run is a
                // deviation that is paid for like a preemption (otherwise every poll iteration is a free branch)
                bool unfair = pts[i].forced && pts[i].prev_enabled && pts[i].enabled[pts[i].chosen] == pts[i].prev && pts[i].enabled.size() > 1;
                pre[i + 1] = pre[i] + ((preempt || unfair) ? 1 : 0);
            }
            for (size_t i = prefix.size(); i < pts.size(); i++)
            {
                for (int alt = 1; alt < (int)pts[i].enabled.size(); alt++)
                {
                    bool is_pre = pts[i].prev_enabled && !pts[i].forced;
                    bool is_unfair = pts[i].forced && pts[i].prev_enabled && pts[i].enabled[alt] == pts[i].prev;
                    int cost = pre[i] + ((is_pre || is_unfair) ? 1 : 0);
                    if (cost > bound) continue;
                    std::vector<int> np;
                    for (size_t j = 0; j < i; j++) np.push_back(pts[j].chosen);
                    np.push_back(alt);
                    explore(np);
                    if (capped) return;
                }
            }
        }
    };

    // ---- C20: two VMs on two threads ----
    static void load_cfg(runtime& rt, const std::string& cfg)
    {
        if (cfg.empty()) return;
        fileio::pathinfo ci(std::string("config.cpp"), std::string("config.cpp"));
        rt.parser_config().parse(rt.confighost(), cfg, ci);
    }
    static std::string run_program_capture(const std::string& text, bool controlled_thread, int tid, sched* sc, const std::string& ops = "full", const std::string& cfg = "")
    {
        vmconf c; c.ops = ops == "synth" ? "full" : ops; c.synth = ops == "synth";
        auto v = make_vm(100 + tid, c);
        auto& rt = *v->rt;
        load_cfg(rt, cfg);
        fileio::pathinfo pi(std::string("p.sqf"), std::string("p.sqf"));
        std::string out;
        auto pp = rt.parser_preprocessor().preprocess(rt, text, pi);
        if (!pp.has_value()) return "<pp failed>";
        auto set = rt.parser_sqf().parse(rt, *pp, pi);
        if (!set.has_value()) return "<parse failed>";
        auto ctx = rt.context_create().lock();
        ctx->push_frame({ rt.default_value_scope(), *set });
        auto r = rt.execute(runtime::action::start);
        out = "r=" + std::to_string((int)r);
        return out;
    }

    // ---- C20 controlled: two VMs on two threads, interleaved at instruction boundaries (do.poll hook) ----
    struct isostate
    {
        std::string p, q; sched sc; std::string out[2]; std::string ops[2] = { "full", "full" }; std::string cfg[2];
    };
    static std::string logs_of(int vmid)
    {
        std::string s;
        for (auto& r : g_log) if (r.vm == vmid) s += std::to_string(r.level) + ":" + r.msg + "\n";
        return s;
    }
    static void iso_body(isostate* st, int tid)
    {
        st->sc.thread_start(tid);
        vmconf c; c.ops = st->ops[tid] == "synth" ? "full" : st->ops[tid]; c.synth = st->ops[tid] == "synth";
        auto v = make_vm(100 + tid, c);
        auto& rt = *v->rt;
        fileio::pathinfo pi(std::string("p.sqf"), std::string("p.sqf"));
        const std::string& text = tid == 0 ? st->p : st->q;
        S->point("iso.created");
        if (!st->cfg[tid].empty()) { load_cfg(rt, st->cfg[tid]); S->point("iso.config_loaded"); }
        auto pp = rt.parser_preprocessor().preprocess(rt, text, pi);
        S->point("iso.preprocessed");
        if (pp.has_value())
        {
            auto set = rt.parser_sqf().parse(rt, *pp, pi);
            if (set.has_value())
            {
                auto ctx = rt.context_create().lock();
                ctx->push_frame({ rt.default_value_scope(), *set });
                auto r = rt.execute(runtime::action::start);
                st->out[tid] = "r=" + std::to_string((int)r);
            }
        }
        v.reset();
        st->sc.thread_end();
    }
    struct iso_explorer
    {
        std::string p, q, expect, p_ops = "full", q_ops = "full", p_cfg, q_cfg; int bound; long max_exec; long execs = 0, points = 0; bool capped = false;
        std::set<std::string> outcomes; js::val violations = js::val::array();
        void explore(std::vector<int> prefix)
        {
            if (execs >= max_exec) { capped = true; return; }
            auto* st = new isostate(); st->p = p; st->q = q; st->ops[0] = p_ops; st->ops[1] = q_ops; st->cfg[0] = p_cfg; st->cfg[1] = q_cfg;
            g_log.clear();
            st->sc.reset(2, prefix); S = &st->sc;
            std::thread t0(iso_body, st, 0), t1(iso_body, st, 1);
            bool fine = st->sc.go();
            if (!fine) { t0.detach(); t1.detach(); S = nullptr; auto v = js::val::object(); v.set("kind", "deadlock-or-livelock"); v.set("what", "two independent VMs do not finish"); violations.push(v); capped = true; return; }
            t0.join(); t1.join(); S = nullptr;
            auto pts = st->sc.points; bool div = st->sc.divergence;
            std::string got = st->out[0] + "\n" + logs_of(100);
            delete st;
            execs++; points += (long)pts.size();
            outcomes.insert(got);
            if (div) { auto v = js::val::object(); v.set("kind", "replay-divergence"); v.set("what", "schedule prefix could not be replayed"); if (violations.size() < 5) violations.push(v); return; }
            if (got != expect && violations.size() < 5)
            {
                auto v = js::val::object(); v.set("kind", "output-depends-on-neighbour");
                v.set("what", "output of P beside Q: " + got.substr(0, 300) + " ; alone: " + expect.substr(0, 300));
                std::string sch; for (auto& pt : pts) sch += std::to_string(pt.chosen); v.set("schedule", sch);
                violations.push(v);
            }
            std::vector<int> pre(pts.size() + 1, 0);
            for (size_t i = 0; i < pts.size(); i++) { bool preempt = pts[i].prev_enabled && !pts[i].forced && pts[i].chosen != 0; pre[i + 1] = pre[i] + (preempt ? 1 : 0); }
            for (size_t i = prefix.size(); i < pts.size(); i++)
                for (int alt = 1; alt < (int)pts[i].enabled.size(); alt++)
                {
                    bool is_pre = pts[i].prev_enabled && !pts[i].forced;
                    if (pre[i] + (is_pre ? 1 : 0) > bound) continue;
                    std::vector<int> np; for (size_t j = 0; j < i; j++) np.push_back(pts[j].chosen); np.push_back(alt);
                    explore(np);
                    if (capped) return;
                }
        }
    };

    js::val mode_mt(const js::val& req)
    {
        std::string what = req["what"].str();
        g_log.clear();
        g_clock.reset();
        auto res = js::val::object();
        if (what == "control")
        {
            // sleeping scripts need time to pass: every clock query advances the virtual clock by this much
            if (req.has("tick_us")) g_clock.tick_us = req["tick_us"].i64(0);
            verif::g_hooks.point = hook_point; verif::g_hooks.on_event = hook_event; verif::g_hooks.slice = 0;
            explorer ex;
            ex.script = req["script"].str();
            for (size_t i = 0; i < req["controller"].size(); i++) ex.ctl.push_back(req["controller"][i].str());
            ex.bound = (int)req["bound"].i64(2);
            ex.max_exec = req["max_executions"].i64(100000);
            if (req.has("schedule"))
            {   // replay of one recorded schedule (digits = choice at each point), with the point tags for explanation
                std::vector<int> pre; for (char ch : req["schedule"].str()) pre.push_back(ch - '0');
                std::vector<sched::pt> pp; bool dd = false;
                obs o = run_control(ex.script, ex.ctl, pre, pp, dd, true);
                verif::g_hooks.point = nullptr; verif::g_hooks.on_event = nullptr;
                res.set("key", o.key()); res.set("divergence", dd);
                auto arr = js::val::array();
                for (auto& q : pp) { auto e = js::val::array(); e.push((long long)q.prev); e.push(std::string(q.at)); e.push((long long)q.enabled[q.chosen]); arr.push(e); }
                res.set("points", arr);
                ex.judge(o, pp); res.set("violations", ex.violations);
                return res;
            }
            // replay check: the same (empty) schedule twice must give identical observations
            std::vector<sched::pt> p1, p2; bool d1 = false, d2 = false;
            obs a = run_control(ex.script, ex.ctl, {}, p1, d1, true);
            obs b = run_control(ex.script, ex.ctl, {}, p2, d2, true);
            if (a.key() != b.key() || p1.size() != p2.size())
            {
                auto v = js::val::object(); v.set("kind", "nondeterministic-replay"); v.set("what", "the default schedule gave " + a.key() + " and then " + b.key());
                ex.violations.push(v);
            }
            else ex.explore({});
            verif::g_hooks.point = nullptr; verif::g_hooks.on_event = nullptr;
            res.set("executions", ex.execs); res.set("points", ex.points); res.set("distinct_outcomes", (long long)ex.outcomes.size());
            res.set("capped", ex.capped); res.set("violations", ex.violations);
            auto oc = js::val::array();
            int n = 0;
            for (auto& kv : ex.outcomes) { if (n++ < 12) { auto o = js::val::array(); o.push(kv.first); o.push(kv.second); oc.push(o); } }
            res.set("outcomes", oc);
            return res;
        }
        if (what == "control-free")
        {
            // free-running pass for ThreadSanitizer: same bodies, real clock, no scheduler
            g_clock.real = true;
            verif::g_hooks.point = nullptr; verif::g_hooks.on_event = hook_event;
            std::vector<std::string> ctl;
            for (size_t i = 0; i < req["controller"].size(); i++) ctl.push_back(req["controller"][i].str());
            int rep = (int)req["repeat"].i64(10);
            long bad = 0;
            for (int i = 0; i < rep; i++)
            {
                std::vector<sched::pt> p; bool d = false;
                obs o = run_control(req["script"].str(), ctl, {}, p, d, false);
                if (!(o.probe == -1 && o.probe_ran)) bad++;
            }
            verif::g_hooks.on_event = nullptr;
            res.set("runs", rep); res.set("unusable_afterwards", bad);
            return res;
        }
        if (what == "isolation")
        {
            verif::g_hooks.point = hook_point; verif::g_hooks.on_event = nullptr; verif::g_hooks.slice = 0;
            iso_explorer ex; ex.p = req["p"].str(); ex.q = req["q"].str();
            if (req.has("p_ops")) ex.p_ops = req["p_ops"].str();
            if (req.has("q_ops")) ex.q_ops = req["q_ops"].str();
            if (req.has("p_cfg")) ex.p_cfg = req["p_cfg"].str();
            if (req.has("q_cfg")) ex.q_cfg = req["q_cfg"].str();
            ex.bound = (int)req["bound"].i64(1); ex.max_exec = req["max_executions"].i64(20000);
            // reference: P alone (Q = empty program) under the same harness
            {
                auto* st = new isostate(); st->p = ex.p; st->q = ""; st->ops[0] = ex.p_ops; st->ops[1] = ex.q_ops; st->cfg[0] = ex.p_cfg;
                g_log.clear(); st->sc.reset(2, {}); S = &st->sc;
                std::thread t0(iso_body, st, 0), t1(iso_body, st, 1);
                st->sc.go(); t0.join(); t1.join(); S = nullptr;
                ex.expect = st->out[0] + "\n" + logs_of(100);
                delete st;
            }
            ex.explore({});
            verif::g_hooks.point = nullptr;
            res.set("executions", ex.execs); res.set("points", ex.points); res.set("distinct_outcomes", (long long)ex.outcomes.size());
            res.set("capped", ex.capped); res.set("violations", ex.violations); res.set("alone", ex.expect.substr(0, 400));
            return res;
        }
        if (what == "isolation-free")
        {
            // two different VMs on two threads, free running (TSan): programs p and q
            g_clock.real = true;
            std::string p = req["p"].str(), q = req["q"].str();
            std::string p_ops = req.has("p_ops") ? req["p_ops"].str() : "full", q_ops = req.has("q_ops") ? req["q_ops"].str() : "full";
            std::string p_cfg = req.has("p_cfg") ? req["p_cfg"].str() : "", q_cfg = req.has("q_cfg") ? req["q_cfg"].str() : "";
            int rep = (int)req["repeat"].i64(5);
            for (int i = 0; i < rep; i++)
            {
                std::thread t0([&] { run_program_capture(p, false, 0, nullptr, p_ops, p_cfg); });
                std::thread t1([&] { run_program_capture(q, false, 1, nullptr, q_ops, q_cfg); });
                t0.join(); t1.join();
            }
            res.set("runs", rep);
            res.set("log", log_to_json(0));
            return res;
        }
        throw std::runtime_error("mt: unknown what " + what);
    }
}
