// Minimal JSON value / parser / writer for the driver protocol (one JSON document per line).
#pragma once
#include <string>
#include <vector>
#include <map>
#include <memory>
#include <cstdio>
#include <cstdlib>
#include <cstring>
#include <cmath>
#include <stdexcept>

namespace js
{
    struct val;
    using arr = std::vector<val>;
    using obj = std::vector<std::pair<std::string, val>>;
    struct val
    {
        enum kind { NUL, BOOL, NUM, STR, ARR, OBJ } k = NUL;
        bool b = false;
        double n = 0;
        std::string s;
        std::shared_ptr<arr> a;
        std::shared_ptr<obj> o;
        val() {}
        val(bool v) : k(BOOL), b(v) {}
        val(int v) : k(NUM), n(v) {}
        val(long v) : k(NUM), n((double)v) {}
        val(long long v) : k(NUM), n((double)v) {}
        val(unsigned long v) : k(NUM), n((double)v) {}
        val(unsigned v) : k(NUM), n((double)v) {}
        val(double v) : k(NUM), n(v) {}
        val(const char* v) : k(STR), s(v) {}
        val(const std::string& v) : k(STR), s(v) {}
        static val array() { val v; v.k = ARR; v.a = std::make_shared<arr>(); return v; }
        static val object() { val v; v.k = OBJ; v.o = std::make_shared<obj>(); return v; }
        void push(const val& v) { a->push_back(v); }
        void set(const std::string& key, const val& v)
        {
            for (auto& p : *o) if (p.first == key) { p.second = v; return; }
            o->push_back({ key, v });
        }
        const val* find(const std::string& key) const
        {
            if (k != OBJ) return nullptr;
            for (auto& p : *o) if (p.first == key) return &p.second;
            return nullptr;
        }
        bool has(const std::string& key) const { return find(key) != nullptr; }
        const val& operator[](const std::string& key) const
        {
            static val nul;
            auto p = find(key);
            return p ? *p : nul;
        }
        const val& operator[](size_t i) const { return (*a)[i]; }
        size_t size() const { return k == ARR ? a->size() : k == OBJ ? o->size() : 0; }
        std::string str(const std::string& def = "") const { return k == STR ? s : def; }
        double num(double def = 0) const { return k == NUM ? n : (k == BOOL ? (b ? 1 : 0) : def); }
        long long i64(long long def = 0) const { return k == NUM ? (long long)n : (k == BOOL ? (b ? 1 : 0) : def); }
        bool boolean(bool def = false) const { return k == BOOL ? b : (k == NUM ? n != 0 : def); }
        bool is_null() const { return k == NUL; }
    };

    // Strings are byte strings: bytes >= 0x80 and control bytes are transported as \u00XX
    // (the Python side encodes/decodes with latin-1), so arbitrary bytes round-trip.
    inline void dump_str(const std::string& s, std::string& out)
    {
        out.push_back('"');
        for (unsigned char c : s)
        {
            switch (c)
            {
            case '"': out += "\\\""; break;
            case '\\': out += "\\\\"; break;
            case '\n': out += "\\n"; break;
            case '\r': out += "\\r"; break;
            case '\t': out += "\\t"; break;
            default:
                if (c < 0x20 || c >= 0x7f) { char buf[8]; snprintf(buf, sizeof buf, "\\u%04x", c); out += buf; }
                else out.push_back((char)c);
            }
        }
        out.push_back('"');
    }
    inline void dump(const val& v, std::string& out)
    {
        switch (v.k)
        {
        case val::NUL: out += "null"; break;
        case val::BOOL: out += v.b ? "true" : "false"; break;
        case val::NUM:
            if (std::isnan(v.n) || std::isinf(v.n)) { out += "null"; }
            else if (v.n == (double)(long long)v.n && std::fabs(v.n) < 1e15) { char buf[32]; snprintf(buf, sizeof buf, "%lld", (long long)v.n); out += buf; }
            else { char buf[40]; snprintf(buf, sizeof buf, "%.17g", v.n); out += buf; }
            break;
        case val::STR: dump_str(v.s, out); break;
        case val::ARR:
            out.push_back('[');
            for (size_t i = 0; i < v.a->size(); i++) { if (i) out.push_back(','); dump((*v.a)[i], out); }
            out.push_back(']');
            break;
        case val::OBJ:
            out.push_back('{');
            for (size_t i = 0; i < v.o->size(); i++) { if (i) out.push_back(','); dump_str((*v.o)[i].first, out); out.push_back(':'); dump((*v.o)[i].second, out); }
            out.push_back('}');
            break;
        }
    }
    inline std::string dump(const val& v) { std::string s; dump(v, s); return s; }

    struct parser
    {
        const char* p; const char* e;
        void ws() { while (p < e && (*p == ' ' || *p == '\n' || *p == '\t' || *p == '\r')) p++; }
        [[noreturn]] void fail(const char* m) { throw std::runtime_error(std::string("json: ") + m); }
        val parse()
        {
            ws();
            if (p >= e) fail("eof");
            char c = *p;
            if (c == '{')
            {
                p++; val v = val::object(); ws();
                if (p < e && *p == '}') { p++; return v; }
                while (true)
                {
                    ws(); if (p >= e || *p != '"') fail("key");
                    std::string k = pstr(); ws();
                    if (p >= e || *p != ':') fail("colon");
                    p++; v.o->push_back({ k, parse() }); ws();
                    if (p < e && *p == ',') { p++; continue; }
                    if (p < e && *p == '}') { p++; return v; }
                    fail("obj");
                }
            }
            if (c == '[')
            {
                p++; val v = val::array(); ws();
                if (p < e && *p == ']') { p++; return v; }
                while (true)
                {
                    v.a->push_back(parse()); ws();
                    if (p < e && *p == ',') { p++; continue; }
                    if (p < e && *p == ']') { p++; return v; }
                    fail("arr");
                }
            }
            if (c == '"') return val(pstr());
            if (!strncmp(p, "true", 4)) { p += 4; return val(true); }
            if (!strncmp(p, "false", 5)) { p += 5; return val(false); }
            if (!strncmp(p, "null", 4)) { p += 4; return val(); }
            char* end; double d = strtod(p, &end);
            if (end == p) fail("value");
            p = end; return val(d);
        }
        std::string pstr()
        {
            std::string s; p++;
            while (p < e && *p != '"')
            {
                if (*p == '\\')
                {
                    p++; if (p >= e) fail("esc");
                    switch (*p)
                    {
                    case 'n': s.push_back('\n'); break;
                    case 'r': s.push_back('\r'); break;
                    case 't': s.push_back('\t'); break;
                    case 'b': s.push_back('\b'); break;
                    case 'f': s.push_back('\f'); break;
                    case 'u':
                    {
                        if (p + 4 >= e) fail("u");
                        char buf[5] = { p[1], p[2], p[3], p[4], 0 };
                        unsigned long cp = strtoul(buf, nullptr, 16);
                        if (cp > 0xff) fail("codepoint > 0xff (protocol is latin-1)");
                        s.push_back((char)(unsigned char)cp);
                        p += 4;
                    } break;
                    default: s.push_back(*p);
                    }
                    p++;
                }
                else s.push_back(*p++);
            }
            if (p >= e) fail("unterminated");
            p++;
            return s;
        }
    };
    inline val parse(const std::string& s) { parser ps{ s.data(), s.data() + s.size() }; return ps.parse(); }
}
