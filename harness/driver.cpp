// vdriver: long-lived worker. Reads one JSON request per line on stdin, answers one JSON line on stdout.
// A request with "fork": true is handled in a forked child (isolation, watchdog, sanitizer report capture).
#include "driver.h"

#include <iostream>
#include <unistd.h>
#include <sys/wait.h>
#include <sys/resource.h>
#include <poll.h>
#include <signal.h>
#include <time.h>
#include <fcntl.h>
#include <mutex>
#include <typeinfo>

namespace vd
{
    vclock g_clock;
    std::vector<logrec> g_log;
    int g_step = -1;
    static std::mutex g_log_mu;

    void reclogger::log(const LogMessageBase& message)
    {
        logrec r;
        r.vm = vm; r.step = g_step; r.level = (int)message.getLevel(); r.code = message.getErrorCode();
        r.has_loc = false; r.line = 0; r.col = 0;
        if (auto rl = dynamic_cast<const logmessage::RuntimeLogMessageBase*>(&message))
        {
            auto loc = rl->location();
            r.has_loc = true; r.line = loc.line; r.col = loc.col; r.path = loc.path;
        }
        r.msg = message.formatMessage();
        std::lock_guard<std::mutex> lk(g_log_mu);
        g_log.push_back(std::move(r));
    }
    js::val log_to_json(size_t from)
    {
        std::lock_guard<std::mutex> lk(g_log_mu);
        auto a = js::val::array();
        for (size_t i = from; i < g_log.size(); i++)
        {
            auto& r = g_log[i];
            auto o = js::val::object();
            o.set("vm", r.vm); o.set("step", r.step); o.set("lvl", r.level); o.set("code", (long long)r.code);
            if (r.has_loc) { o.set("line", (long long)r.line); o.set("col", (long long)r.col); o.set("path", r.path); }
            o.set("msg", r.msg);
            a.push(o);
        }
        return a;
    }
}

// ---- interposed clock -------------------------------------------------------------------------
// Defining the symbol in the executable interposes libstdc++'s definition for every caller in the
// repo objects (they are linked into this executable, libstdc++ is a shared library).
namespace std { namespace chrono { inline namespace _V2 {
    system_clock::time_point system_clock::now() noexcept
    {
        auto& c = vd::g_clock;
        if (c.real)
        {
            timespec ts; clock_gettime(CLOCK_REALTIME, &ts);
            return time_point(std::chrono::duration_cast<duration>(std::chrono::seconds(ts.tv_sec) + std::chrono::nanoseconds(ts.tv_nsec)));
        }
        c.calls++;
        long long add = c.tick_us;
        if (c.script_pos < c.script_us.size()) add = c.script_us[c.script_pos++];
        long long v = (c.now_us += add);
        return time_point(std::chrono::duration_cast<duration>(std::chrono::microseconds(v)));
    }
}}}
// deterministic rand()
static unsigned long g_rand_state = 12345;
extern "C" int rand(void) noexcept { g_rand_state = g_rand_state * 6364136223846793005UL + 1442695040888963407UL; return (int)((g_rand_state >> 33) & 0x7fffffff); }
extern "C" void srand(unsigned s) noexcept { g_rand_state = s; }

static long long mono_ms()
{
    timespec ts; clock_gettime(CLOCK_MONOTONIC, &ts);
    return (long long)ts.tv_sec * 1000 + ts.tv_nsec / 1000000;
}

static js::val handle(const js::val& req)
{
    std::string mode = req["mode"].str();
    if (mode == "ping") { auto o = js::val::object(); o.set("pong", true); return o; }
    if (mode == "steps") return vd::mode_steps(req);
    if (mode == "prepare") return vd::mode_prepare(req);
    if (mode == "parse") return vd::mode_parse(req);
    if (mode == "registry") return vd::mode_registry(req);
    if (mode == "eval") return vd::mode_eval(req);
    if (mode == "pp") return vd::mode_pp(req);
    if (mode == "front") return vd::mode_front(req);
    if (mode == "roundtrip") return vd::mode_roundtrip(req);
    if (mode == "values") return vd::mode_values(req);
    if (mode == "mt") return vd::mode_mt(req);
    if (mode == "api") return vd::mode_api(req);
    if (mode == "pbo") return vd::mode_pbo(req);
    if (mode == "selftest_crash")
    {
        std::string k = req["kind"].str();
        if (k == "segv") { volatile int* p = nullptr; *p = 1; }
        if (k == "oob") { int* a = new int[4]; volatile int x = a[(int)req["i"].num(5)]; (void)x; }
        if (k == "throw") { throw std::runtime_error("selftest"); }
        if (k == "hang") { volatile long x = 0; while (true) { x = x + 1; } }
        if (k == "alloc") { volatile char* p = new char[(size_t)4 << 30]; p[0] = 1; }
        return js::val::object();
    }
    throw std::runtime_error("unknown mode " + mode);
}

static js::val safe_handle(const js::val& req, bool in_child)
{
    auto out = js::val::object();
    if (in_child)
    {
        // let exceptions that escape the repo code terminate the child: that IS an observation
        auto r = handle(req);
        out.set("outcome", "ok"); out.set("result", r);
        return out;
    }
    try
    {
        auto r = handle(req);
        out.set("outcome", "ok"); out.set("result", r);
    }
    catch (const std::exception& ex)
    {
        out.set("outcome", "exception"); out.set("what", std::string(ex.what()));
    }
    return out;
}

static std::string classify(const std::string& err, int sig, std::string& frame)
{
    // first in-repo frame of the first stack trace
    frame.clear();
    size_t pos = 0;
    while ((pos = err.find("\n    #", pos)) != std::string::npos)
    {
        size_t eol = err.find('\n', pos + 1);
        std::string line = err.substr(pos + 1, eol == std::string::npos ? std::string::npos : eol - pos - 1);
        if (line.find("/src/") != std::string::npos && line.find("/harness/") == std::string::npos)
        {
            // "#3 0x... in sqf::foo(...) /repo/src/x.cpp:12:3"
            size_t in = line.find(" in ");
            std::string f = in == std::string::npos ? line : line.substr(in + 4);
            // strip address-ish column info
            frame = f;
            break;
        }
        pos = eol == std::string::npos ? err.size() : eol;
    }
    auto has = [&](const char* s) { return err.find(s) != std::string::npos; };
    if (has("AddressSanitizer: stack-overflow")) return "stack-overflow";
    if (has("exceeds maximum supported size") || has("allocation-size-too-big") || has("out of memory") || has("hard rss limit")) return "alloc-limit";
    if (has("AddressSanitizer:"))
    {
        size_t p = err.find("AddressSanitizer: ");
        size_t e = err.find_first_of(" \n", p + 18);
        return "asan:" + err.substr(p + 18, e - p - 18);
    }
    if (has("runtime error:"))
    {
        size_t p = err.find("runtime error: ");
        size_t e = err.find('\n', p);
        std::string m = err.substr(p + 15, e - p - 15);
        // normalise numbers/types out of the message
        std::string k;
        for (char c : m) { if (k.size() < 60) k.push_back(c); }
        return "ubsan:" + k;
    }
    if (has("terminate called") || has("libc++abi: terminating") )
    {
        size_t p = err.find("instance of '");
        if (p != std::string::npos) { size_t e = err.find('\'', p + 13); return "exception:" + err.substr(p + 13, e - p - 13); }
        return "terminate";
    }
    if (has("Assertion") && has("failed")) return "assert";
    if (has("_GLIBCXX_ASSERT") || has("__glibcxx_assert") || (has("Assertion '") ))  return "glibcxx-assert";
    if (sig == SIGSEGV) return "sigsegv";
    if (sig == SIGABRT) return "sigabrt";
    if (sig == SIGFPE) return "sigfpe";
    if (sig == SIGBUS) return "sigbus";
    if (sig == SIGKILL) return "sigkill";
    return "signal:" + std::to_string(sig);
}

static js::val run_forked(const js::val& req)
{
    long long timeout_ms = req["timeout_ms"].i64(5000);
    int rp[2], ep[2];
    if (pipe(rp) || pipe(ep)) throw std::runtime_error("pipe");
    fflush(stdout); fflush(stderr);
    pid_t pid = fork();
    if (pid < 0) throw std::runtime_error("fork");
    if (pid == 0)
    {
        close(rp[0]); close(ep[0]);
        dup2(ep[1], 2); close(ep[1]);
        int devnull = open("/dev/null", O_RDONLY); dup2(devnull, 0);
        if (req.has("stack_mb")) { rlimit rl; rl.rlim_cur = rl.rlim_max = (rlim_t)req["stack_mb"].i64() << 20; setrlimit(RLIMIT_STACK, &rl); }
        js::val out;
        try { out = safe_handle(req, true); }
        catch (const std::exception& ex)
        {
            // an exception crossed the VM boundary into the harness: report it as an observation
            out = js::val::object();
            out.set("outcome", "crash"); out.set("signal", 0); out.set("exit", 0);
            out.set("kind", std::string("exception:") + typeid(ex).name());
            out.set("frame", ""); out.set("what", std::string(ex.what()));
        }
        catch (...)
        {
            out = js::val::object();
            out.set("outcome", "crash"); out.set("signal", 0); out.set("exit", 0);
            out.set("kind", "exception:unknown"); out.set("frame", "");
        }
        std::string s = js::dump(out);
        s.push_back('\n');
        size_t off = 0;
        while (off < s.size()) { ssize_t n = write(rp[1], s.data() + off, s.size() - off); if (n <= 0) break; off += (size_t)n; }
        _exit(0);
    }
    close(rp[1]); close(ep[1]);
    std::string res, err;
    long long deadline = mono_ms() + timeout_ms;
    bool timed_out = false;
    pollfd fds[2] = { { rp[0], POLLIN, 0 }, { ep[0], POLLIN, 0 } };
    int open_fds = 2;
    char buf[65536];
    while (open_fds > 0)
    {
        long long left = deadline - mono_ms();
        if (left <= 0) { timed_out = true; break; }
        int pr = poll(fds, 2, (int)std::min<long long>(left, 1000));
        if (pr < 0) { if (errno == EINTR) continue; break; }
        for (int i = 0; i < 2; i++)
        {
            if (fds[i].fd >= 0 && (fds[i].revents & (POLLIN | POLLHUP | POLLERR)))
            {
                ssize_t n = read(fds[i].fd, buf, sizeof buf);
                if (n > 0) { if (i == 0) res.append(buf, (size_t)n); else if (err.size() < (1 << 20)) err.append(buf, (size_t)n); }
                else { close(fds[i].fd); fds[i].fd = -1; open_fds--; }
            }
        }
    }
    for (int i = 0; i < 2; i++) if (fds[i].fd >= 0) close(fds[i].fd);
    int status = 0;
    if (timed_out) { kill(pid, SIGKILL); }
    waitpid(pid, &status, 0);
    auto out = js::val::object();
    if (timed_out)
    {
        out.set("outcome", "timeout"); out.set("timeout_ms", timeout_ms);
        out.set("stderr", err.size() > 4000 ? err.substr(0, 4000) : err);
        return out;
    }
    if (WIFEXITED(status) && WEXITSTATUS(status) == 0 && !res.empty() && res.back() == '\n')
    {
        try
        {
            js::val v = js::parse(res);
            if (!err.empty()) v.set("stderr", err.size() > 4000 ? err.substr(0, 4000) : err);
            return v;
        }
        catch (const std::exception& ex)
        {
            out.set("outcome", "protocol_error"); out.set("what", std::string(ex.what()));
            return out;
        }
    }
    int sig = WIFSIGNALED(status) ? WTERMSIG(status) : 0;
    std::string frame;
    std::string kind = classify(err, sig, frame);
    out.set("outcome", "crash");
    out.set("signal", sig);
    out.set("exit", WIFEXITED(status) ? WEXITSTATUS(status) : -1);
    out.set("kind", kind);
    out.set("frame", frame);
    out.set("stderr", err.size() > 6000 ? err.substr(0, 6000) : err);
    return out;
}

int main(int argc, char** argv)
{
    signal(SIGPIPE, SIG_IGN);
    std::ios::sync_with_stdio(false);
    std::string line;
    while (std::getline(std::cin, line))
    {
        if (line.empty()) continue;
        js::val out;
        try
        {
            js::val req = js::parse(line);
            if (req["fork"].boolean(false)) out = run_forked(req);
            else out = safe_handle(req, false);
            if (req.has("id")) out.set("id", req["id"]);
        }
        catch (const std::exception& ex)
        {
            out = js::val::object();
            out.set("outcome", "driver_error"); out.set("what", std::string(ex.what()));
        }
        std::string s = js::dump(out);
        s.push_back('\n');
        fwrite(s.data(), 1, s.size(), stdout);
        fflush(stdout);
    }
    return 0;
}
