// Shared declarations of the verification driver.
#pragma once
#include "json.h"

#include "runtime/runtime.h"
#include "runtime/verif_hooks.h"
#include "runtime/logging.h"
#include "operators/ops.h"
#include "parser/sqf/sqf_parser.hpp"
#include "parser/preprocessor/default.h"
#include "parser/config/config_parser.hpp"
#include "parser/assembly/assembly_parser.h"
#include "fileio/default.h"

#include <memory>
#include <string>
#include <vector>
#include <atomic>

namespace vd
{
    // ---- virtual clock (interposes std::chrono::system_clock::now) ----
    struct vclock
    {
        std::atomic<long long> now_us{ 1000000000LL };   // current virtual time in µs
        std::atomic<long long> tick_us{ 0 };              // added on every now() call
        std::atomic<long long> calls{ 0 };
        std::vector<long long> script_us;                 // per-call advances consumed in order (then tick_us)
        size_t script_pos = 0;
        bool real = false;                                // use the real clock (free-running TSan passes)
        void reset() { now_us = 1000000000LL; tick_us = 0; calls = 0; script_us.clear(); script_pos = 0; real = false; }
    };
    extern vclock g_clock;

    // ---- recording logger ----
    struct logrec
    {
        int vm; int step; int level; size_t code; bool has_loc; size_t line, col; std::string path; std::string msg;
    };
    extern std::vector<logrec> g_log;
    extern int g_step;
    class reclogger : public Logger
    {
    public:
        int vm;
        explicit reclogger(int vm) : Logger(), vm(vm) {}
        void log(const LogMessageBase& message) override;
    };
    js::val log_to_json(size_t from);

    // ---- VM ----
    struct vmconf
    {
        std::string ops = "full";       // full | basic | none
        long long max_runtime_ms = 0;
        long long loop_cap = 10000;
        bool print_work = true;
        bool disable_sleep = false;
        bool classname_check = true;
        bool synth = false;             // register synthetic operators of every token class (C01)
        bool trace = false;             // enable verbose/trace levels
    };
    struct vm
    {
        int id;
        std::unique_ptr<reclogger> logger;
        std::unique_ptr<sqf::runtime::runtime> rt;
        ~vm() { rt.reset(); logger.reset(); }
    };
    std::unique_ptr<vm> make_vm(int id, const vmconf& conf);
    void register_synth_ops(sqf::runtime::runtime& rt);
    vmconf conf_from_json(const js::val& v);

    // ---- instruction level monitor (C05) and counters ----
    struct counters
    {
        long long instr = 0;        // instruction_executed events
        long long frames_done = 0;
        long long slices = 0;
    };
    extern counters g_cnt;
    void install_hooks(bool monitor, bool slice_trace, size_t slice);
    js::val monitor_report();      // stack monitor violations + stats
    js::val slice_trace();         // scheduler trace

    // ---- modes ----
    js::val mode_steps(const js::val& req);
    js::val mode_prepare(const js::val& req);    // build a template VM before forking
    js::val mode_parse(const js::val& req);      // asm listing of texts
    js::val mode_registry(const js::val& req);
    js::val mode_eval(const js::val& req);       // run texts to completion, in-process
    js::val mode_pp(const js::val& req);
    js::val mode_front(const js::val& req);
    js::val mode_roundtrip(const js::val& req);  // str/compile and pretty-printer round trips      // textual front ends, totality + determinism
    js::val mode_values(const js::val& req);     // relations between values (C07)
    js::val mode_mt(const js::val& req);         // two-thread exploration (C19/C20)
    js::val mode_api(const js::val& req);        // C API histories (C18)
    js::val mode_pbo(const js::val& req);        // PBO reader (C17)

    std::string value_kind(const sqf::runtime::value& v);
}
