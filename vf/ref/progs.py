"""Program templates (constructs with holes) for C02/C04/C05 and their composition to a nesting depth.

A template is (name, build) where build(h, ids) -> list of statements; h is the list of statements placed
in the template's hole (a block position that is executed), ids an id allocator. Templates are
self-contained: an early exit generated inside a template never escapes the template.
"""
import itertools


class Ids:
    def __init__(self):
        self.n = 0
        self.w = 0

    def m(self):
        self.n += 1
        return ("mark", self.n)

    def id(self):
        self.n += 1
        return self.n

    def wk(self):
        self.w += 1
        return self.w


def T():
    t = []

    def add(name):
        def deco(f):
            t.append((name, f))
            return f
        return deco

    @add("if-true")
    def _(h, i): return [("rec", i.id(), ("if", True, [i.m()] + h + [("lit", 5)], None))]

    @add("if-false-noelse")
    def _(h, i): return [("rec", i.id(), ("if", False, [i.m()] + h + [("lit", 5)], None)), i.m()]

    @add("if-else-taken")
    def _(h, i): return [("rec", i.id(), ("if", False, [i.m()], [i.m()] + h + [("lit", 6)]))]

    @add("if-else-nottaken")
    def _(h, i): return [("rec", i.id(), ("if", True, [i.m()] + h + [("lit", "a")], [i.m(), ("lit", 6)]))]

    @add("if-then-empty-value")
    def _(h, i): return [("rec", i.id(), ("if", True, h, [("lit", 1)]))]

    @add("call")
    def _(h, i): return [("rec", i.id(), ("call", None, [i.m()] + h + [("lit", 7)]))]

    @add("call-arg")
    def _(h, i): return [("rec", i.id(), ("call", 3, [("recx", i.id(), ["_this"])] + h + [("this",)]))]

    @add("call-ends-with-hole")
    def _(h, i): return [("rec", i.id(), ("call", None, [i.m()] + h))]

    @add("exitwith-in-call")
    def _(h, i): return [("rec", i.id(), ("call", None, [i.m(), ("exitwith", True, [i.m()] + h + [("lit", 8)]), i.m()])), i.m()]

    @add("exitwith-false")
    def _(h, i): return [("rec", i.id(), ("call", None, [("exitwith", False, [i.m()]), i.m()] + h + [("lit", 9)]))]

    @add("exitwith-empty-block")
    def _(h, i): return [("rec", i.id(), ("call", None, [i.m()] + h + [("exitwith", True, []), i.m()])), i.m()]

    @add("exitwith-in-then")
    def _(h, i): return [("rec", i.id(), ("call", None, [("if", True, [i.m(), ("exitwith", True, [i.m()] + h + [("lit", 4)]), i.m()], None), i.m(), ("lit", 3)]))]

    @add("while-2")
    def _(h, i):
        k = i.wk()
        return [("while", k, 2, [("recx", i.id(), ["_w%d" % k])] + h), i.m()]

    @add("while-0")
    def _(h, i):
        k = i.wk()
        return [("while", k, 0, [i.m()] + h), i.m()]

    @add("while-exit-2nd")
    def _(h, i):
        k = i.wk()
        return [("while", k, 4, [("recx", i.id(), ["_w%d" % k]), ("exitwith", ("veq", "_w%d" % k, 2), [i.m()] + h), i.m()]), i.m()]

    @add("for-0-2")
    def _(h, i): return [("for", "_i", 0, 2, None, [("recx", i.id(), ["_i"])] + h), i.m()]

    @add("for-step2")
    def _(h, i): return [("for", "_i", 0, 4, 2, [("recx", i.id(), ["_i"])] + h), i.m()]

    @add("for-neg")
    def _(h, i): return [("for", "_i", 2, 0, -1, [("recx", i.id(), ["_i"])] + h), i.m()]

    @add("for-empty-range")
    def _(h, i): return [("for", "_i", 2, 0, None, [i.m()] + h), i.m()]

    @add("for-exit")
    def _(h, i): return [("for", "_i", 0, 3, None, [("recx", i.id(), ["_i"]), ("exitwith", ("veq", "_i", 1), [i.m()] + h), i.m()]), i.m()]

    @add("foreach")
    def _(h, i): return [("foreach", [4, 5, 6], [("recx", i.id(), ["_x", "_forEachIndex"])] + h), i.m()]

    @add("foreach-empty")
    def _(h, i): return [("foreach", [], [i.m()] + h), i.m()]

    @add("foreach-exit")
    def _(h, i): return [("foreach", [4, 5, 6], [("recx", i.id(), ["_x"]), ("exitwith", ("veq", "_x", 5), [i.m()] + h), i.m()]), i.m()]

    @add("count")
    def _(h, i): return [("rec", i.id(), ("count", [1, 2, 3], [("recx", i.id(), ["_x"])] + h, ("xgt", 1)))]

    @add("select-filter")
    def _(h, i): return [("rec", i.id(), ("select", [1, 2, 3], [("recx", i.id(), ["_x"])] + h, ("xgt", 1)))]

    @add("apply")
    def _(h, i): return [("rec", i.id(), ("apply", [1, 2, 3], [("recx", i.id(), ["_x"])] + h, ("xplus", 10)))]

    @add("findif")
    def _(h, i): return [("rec", i.id(), ("findif", [1, 2, 3], [("recx", i.id(), ["_x"])] + h, ("xgt", 1)))]

    # the body rebinds _x: the construct still works on the array's own elements, each iteration gets the next element
    @add("select-body-assigns-x")
    def _(h, i): return [("rec", i.id(), ("select", [1, 2, 3], [("assign", "_x", ("xplus", 10)), ("recx", i.id(), ["_x"])] + h, ("xgt", 11)))]

    @add("apply-body-assigns-x")
    def _(h, i): return [("rec", i.id(), ("apply", [1, 2], [("assign", "_x", ("xplus", 5))] + h, ("xplus", 1)))]

    @add("count-findif-body-assigns-x")
    def _(h, i): return [("rec", i.id(), ("count", [1, 2, 3], [("assign", "_x", ("xplus", 1))] + h, ("xgt", 2))),
                         ("rec", i.id(), ("findif", [1, 2, 3], [("assign", "_x", ("xplus", 1))], ("xgt", 2)))]

    @add("foreach-body-assigns-x")
    def _(h, i): return [("foreach", [4, 5], [("assign", "_x", ("xplus", 100)), ("recx", i.id(), ["_x", "_forEachIndex"])] + h), i.m()]

    @add("findif-none")
    def _(h, i): return [("rec", i.id(), ("findif", [1, 2], [i.m()] + h, ("xgt", 5)))]

    @add("count-empty")
    def _(h, i): return [("rec", i.id(), ("count", [], [i.m()] + h, ("lit", True)))]

    @add("switch-first")
    def _(h, i): return [("rec", i.id(), ("switch", 1, [(1, [i.m()] + h + [("lit", 11)]), (2, [i.m(), ("lit", 12)])], (2, [i.m(), ("lit", 13)])))]

    @add("switch-second")
    def _(h, i): return [("rec", i.id(), ("switch", 2, [(1, [i.m(), ("lit", 11)]), (2, [i.m()] + h + [("lit", 12)])], (2, [i.m(), ("lit", 13)])))]

    @add("switch-fallthrough")
    def _(h, i): return [("rec", i.id(), ("switch", 1, [(1, None), (2, None), (3, [i.m()] + h + [("lit", 14)]), (4, [i.m()])], None))]

    @add("switch-default-last")
    def _(h, i): return [("rec", i.id(), ("switch", 9, [(1, [i.m()]), (2, [i.m()])], (2, [i.m()] + h + [("lit", 15)])))]

    @add("switch-default-first")
    def _(h, i): return [("rec", i.id(), ("switch", 9, [(1, [i.m()]), (2, [i.m()])], (0, [i.m()] + h + [("lit", 16)])))]

    @add("switch-default-first-but-match")
    def _(h, i): return [("rec", i.id(), ("switch", 2, [(1, [i.m()]), (2, [i.m()] + h + [("lit", 17)])], (0, [i.m(), ("lit", 16)])))]

    @add("switch-nomatch")
    def _(h, i): return [("rec", i.id(), ("switch", 9, [(1, [i.m()] + h), (2, [i.m()])], None)), i.m()]

    # case statements evaluated in a nested scope of the switch body: the first match still wins, a matching case ends
    # only the block it stands in, later matching cases (same literal, a fall-through group, the other branch in a later
    # loop iteration) do not replace it
    @add("switch-case-in-call-then-same-case")
    def _(h, i): return [("rec", i.id(), ("switchb", 2, [("call", None, [i.m(), ("case", 2, [i.m()] + h + [("lit", 21)]), i.m()]), i.m(),
                                                      ("case", 2, [i.m(), ("lit", 22)]), ("default", [i.m(), ("lit", 23)])]))]

    @add("switch-case-in-if-then-fallthrough-group")
    def _(h, i): return [("rec", i.id(), ("switchb", "b", [("if", True, [("case", "b", [i.m()] + h + [("lit", 24)])], None), ("case", "a", None),
                                                        ("case", "b", [i.m(), ("lit", 25)]), ("default", [i.m(), ("lit", 26)])]))]

    @add("switch-case-in-foreach-branches")
    def _(h, i): return [("rec", i.id(), ("switchb", 7, [("foreach", [1, 2, 3], [i.m(), ("if", ("xgt", 1), [("case", 7, [i.m(), ("lit", 27)])],
                                                                                      [("case", 7, [i.m()] + h + [("lit", 28)])])]), i.m()]))]

    @add("switch-nested-case-distinct")
    def _(h, i): return [("rec", i.id(), ("switchb", 2, [("default", [i.m(), ("lit", 29)]), ("if", True, [("case", 1, [i.m()]), ("case", 2, [i.m()] + h + [("lit", 30)]), i.m()], None),
                                                      ("case", 3, [i.m()]), i.m()]))]

    @add("switch-nested-nomatch-default")
    def _(h, i): return [("rec", i.id(), ("switchb", 9, [("call", None, [("case", 1, [i.m()]), i.m()]), ("default", [i.m()] + h + [("lit", 31)]), ("case", 2, [i.m()])]))]

    @add("switch-bool")
    def _(h, i): return [("rec", i.id(), ("switch", True, [(False, [i.m()]), (True, [i.m()] + h + [("lit", 18)])], None))]

    @add("try-nothrow")
    def _(h, i): return [("rec", i.id(), ("try", [i.m()] + h + [("lit", 20)], [i.m(), ("lit", 21)]))]

    @add("try-throw")
    def _(h, i): return [("rec", i.id(), ("try", [i.m(), ("throw", 22), i.m()], [("recx", i.id(), ["_exception"])] + h + [("lit", 23)])), i.m()]

    @add("try-throw-after-hole")
    def _(h, i): return [("rec", i.id(), ("try", [i.m()] + h + [("throw", "e"), i.m()], [("recx", i.id(), ["_exception"]), ("lit", 24)])), i.m()]

    @add("try-throw-nested-call")
    def _(h, i): return [("rec", i.id(), ("try", [i.m(), ("call", None, [i.m()] + h + [("call", None, [("throw", [1, 2])]), i.m()]), i.m()], [("recx", i.id(), ["_exception"]), ("lit", 25)])), i.m()]

    @add("try-throw-in-loop")
    def _(h, i): return [("rec", i.id(), ("try", [("foreach", [1, 2, 3], [("recx", i.id(), ["_x"]), ("if", ("veq", "_x", 2), h + [("throw", 26)], None), i.m()]), i.m()], [("recx", i.id(), ["_exception"])])), i.m()]

    @add("try-inner-catches")
    def _(h, i): return [("rec", i.id(), ("try", [("rec", i.id(), ("try", [("throw", 1)], [("recx", i.id(), ["_exception"])] + h + [("lit", 27)])), i.m(), ("lit", 28)], [i.m(), ("lit", 29)])), i.m()]

    @add("throw-in-catch")
    def _(h, i): return [("rec", i.id(), ("try", [("try", [("throw", 1)], [("recx", i.id(), ["_exception"])] + h + [("throw", 2), i.m()]), i.m()], [("recx", i.id(), ["_exception"]), ("lit", 30)])), i.m()]

    @add("breakout")
    def _(h, i):
        sn = "s%d" % i.id()
        return [("rec", i.id(), ("call", None, [("scopename", sn), i.m(), ("call", None, [i.m()] + h + [("breakout", None, sn), i.m()]), i.m()])), i.m()]

    @add("breakout-value")
    def _(h, i):
        sn = "s%d" % i.id()
        return [("rec", i.id(), ("call", None, [("scopename", sn), i.m(), ("call", None, [i.m()] + h + [("breakout", 31, sn), i.m()]), i.m(), ("lit", 32)])), i.m()]

    @add("breakout-two-levels")
    def _(h, i):
        sn = "s%d" % i.id()
        return [("rec", i.id(), ("call", None, [("scopename", sn), ("foreach", [1, 2], [("recx", i.id(), ["_x"]), ("if", True, [("call", None, h + [("breakout", "v", sn)]), i.m()], None), i.m()]), i.m()])), i.m()]

    @add("breakout-own-scope")
    def _(h, i):
        sn = "s%d" % i.id()
        return [("rec", i.id(), ("call", None, [("scopename", sn), i.m()] + h + [("breakout", 33, sn), i.m()])), i.m()]

    @add("and-true")
    def _(h, i): return [("rec", i.id(), ("and", True, [i.m()] + h, ("lit", True)))]

    @add("and-false")
    def _(h, i): return [("rec", i.id(), ("and", False, [i.m()] + h, ("lit", True))), i.m()]

    @add("or-false")
    def _(h, i): return [("rec", i.id(), ("or", False, [i.m()] + h, ("lit", False)))]

    @add("or-true")
    def _(h, i): return [("rec", i.id(), ("or", True, [i.m()] + h, ("lit", False))), i.m()]

    return t


def T_blockends():
    """Blocks ending in each statement kind (C05: a finished block contributes exactly one value)."""
    t = []

    def add(name):
        def deco(f):
            t.append((name, f))
            return f
        return deco

    @add("call-ends-assign")
    def _(h, i): return [("rec", i.id(), ("call", None, [i.m()] + h + [("assign", "_a%d" % i.id(), 1)]))]

    @add("call-ends-private-assign")
    def _(h, i): return [("rec", i.id(), ("call", None, h + [("passign", "_a%d" % i.id(), 1)]))]

    @add("call-two-assign")
    def _(h, i): return [("rec", i.id(), ("call", None, [("assign", "_a%d" % i.id(), 1)] + h + [("assign", "_b%d" % i.id(), 2)]))]

    @add("call-empty")
    def _(h, i): return [("rec", i.id(), ("call", None, h))]

    @add("call-ends-nil")
    def _(h, i): return [("rec", i.id(), ("call", None, h + [("lit", None)]))]

    @add("then-ends-assign")
    def _(h, i): return [("rec", i.id(), ("if", True, h + [("assign", "_a%d" % i.id(), 1)], None))]

    @add("exitwith-ends-assign")
    def _(h, i): return [("rec", i.id(), ("call", None, [("exitwith", True, h + [("assign", "_a%d" % i.id(), 1)]), i.m()]))]

    @add("catch-ends-assign")
    def _(h, i): return [("rec", i.id(), ("try", [("throw", 1)], h + [("assign", "_a%d" % i.id(), 1)]))]

    @add("switch-case-ends-assign")
    def _(h, i): return [("rec", i.id(), ("switch", 1, [(1, h + [("assign", "_a%d" % i.id(), 1)])], None))]

    @add("foreach-ends-assign")
    def _(h, i): return [("foreach", [1, 2], h + [("assign", "_a%d" % i.id(), 1)]), i.m()]

    @add("try-throw-with-pending")
    def _(h, i): return [("rec", i.id(), ("try", [("arr", [("lit", 1), ("lit", 2), ("call", None, [("throw", 3)])])], [("recx", i.id(), ["_exception"])] + h))]

    return t


def T_handled():
    """Runtime errors (not throw) recovered by except__ while operands are pending in the guarded block or between it and the
    failing frame; error diagnostics are expected for these (only C05 runs them)."""
    t = []

    def add(name):
        def deco(f):
            t.append((name, f))
            return f
        return deco

    @add("except-error-in-nested-call-pending-array")
    def _(h, i): return [("rec", i.id(), ("except", [("arr", [("lit", 7), ("lit", 8), ("call", None, [i.m()] + h + [("err", "type")])]), i.m()], [i.m()])), i.m()]

    @add("except-error-in-loop-pending-array")
    def _(h, i): return [("rec", i.id(), ("except", [("arr", [("lit", 5), ("foreach", [1, 2], [i.m()] + h + [("err", "index"), i.m()])])], [i.m()])), i.m()]

    @add("except-handler-ends-assign")
    def _(h, i): return [("rec", i.id(), ("except", [("arr", [("lit", 1), ("lit", 2), ("call", None, [("err", "type")])])], h + [("assign", "_e%d" % i.id(), 1)])), i.m()]

    @add("except-handler-yields-value")
    def _(h, i): return [("rec", i.id(), ("except", [("arr", [("lit", 7), ("call", None, [("call", None, [("err", "type")])])])], [i.m()] + h + [("lit", 9)])), i.m()]

    @add("except-nested-inner-handles")
    def _(h, i): return [("rec", i.id(), ("except", [("arr", [("lit", 1), ("except", [("arr", [("lit", 2), ("call", None, [("err", "type")])])], [i.m()] + h)]), i.m()], [i.m(), ("lit", 3)])), i.m()]

    @add("except-error-in-if-block-pending-array")
    def _(h, i): return [("rec", i.id(), ("except", [("arr", [("lit", 4), ("if", True, [i.m()] + h + [("err", "count-behaviour"), i.m()], None)])], [])), i.m()]

    return t


TEMPLATES = T()
BLOCKEND_TEMPLATES = T_blockends()
HANDLED_TEMPLATES = T_handled()
TNAMES = [n for n, _ in TEMPLATES]
TBY = dict(TEMPLATES + BLOCKEND_TEMPLATES + HANDLED_TEMPLATES)
HNAMES = [n for n, _ in HANDLED_TEMPLATES]
BNAMES = [n for n, _ in BLOCKEND_TEMPLATES]


def build(names):
    """names: nesting chain outermost..innermost -> program (list of statements)."""
    ids = Ids()

    def go(idx):
        if idx >= len(names):
            return []
        f = TBY[names[idx]]
        # allocate ids outer-first so numbering is stable: build inner lazily through a thunk list
        inner_holder = []

        class H(list):
            pass
        # build outer with placeholder, then substitute
        ph = ("hole", idx)
        body = f([ph], ids)
        inner = go(idx + 1)
        return subst(body, ph, inner)
    prog = [("mark", 0)] + go(0) + [("mark", 9999)]
    return prog


def build_with_hole(names, hole):
    """Like build, but the innermost hole is filled with the given statements."""
    ids = Ids()

    def go(idx):
        if idx >= len(names):
            return list(hole)
        ph = ("hole", idx)
        body = TBY[names[idx]]([ph], ids)
        return subst(body, ph, go(idx + 1))
    return [("mark", 0)] + go(0) + [("mark", 9999)]


def subst(x, ph, inner):
    if isinstance(x, list):
        out = []
        for e in x:
            if e == ph:
                out.extend(inner)
            else:
                out.append(subst(e, ph, inner))
        return out
    if isinstance(x, tuple):
        return tuple(subst(e, ph, inner) for e in x)
    return x


def chains(depth, names=None):
    names = names or TNAMES
    for d in range(1, depth + 1):
        for c in itertools.product(names, repeat=d):
            yield list(c)
