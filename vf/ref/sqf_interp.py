"""Reference interpreter + renderer for the control-structure subset of SQF used by C02/C04/C05.

A program is a block: a list of statements. Statements / expressions (tuples):
  ("mark", n)                         diag_log str n                               value nil
  ("lit", v)                          literal (None -> nil)                        value v
  ("rec", id, e)                      diag_log str [[e], id]                       (records value of e; e has no pending operands)
  ("recx", id, names)                 diag_log [id, n1, n2, ...]                   (records variables)
  ("if", c, B1, B2|None)              if (c) then {B1} [else {B2}]
  ("exitwith", c, B)                  if (c) exitWith {B}
  ("while", k, n, B)                  _wk = 0; while {_wk < n} do {_wk = _wk + 1; B}
  ("for", var, a, b, s|None, B)       for "var" from a to b [step s] do {B}
  ("foreach", arr, B)                 {B} forEach arr
  ("count", arr, B, p)                {B; p} count arr        p: ("xgt", n) -> _x > n | ("lit", bool)
  ("select", arr, B, p)               arr select {B; p}
  ("apply", arr, B, v)                arr apply {B; v}        v: ("xplus", n) -> _x + n | ("lit", v)
  ("findif", arr, B, p)               arr findIf {B; p}
  ("switch", v, cases, default)       cases: [(val, B|None)], default: (position, B) | None
  ("switchb", v, B)                   switch (v) do {B}; B may contain, at any nesting depth, ("case", val, B|None) and ("default", B)
  ("call", arg|None, B)               [arg] call {B}
  ("try", B1, B2)                     try {B1} catch {B2}
  ("throw", v)                        throw v
  ("scopename", s)                    scopeName "s"
  ("breakout", v|None, s)             [v] breakOut "s"
  ("and", c, B, b) / ("or", c, B, b)  c && {B; b}   /  c || {B; b}
  ("exc",)                            _exception (value expression, inside catch blocks)
  ("this",)                           _this
Conditions c are Python bools or ("xgt", n) etc.
"""


REC_STYLE = "pre"   # how ("rec", id, e) is rendered / recorded: pre | post | nested


class ExitScope(Exception):
    def __init__(self, value):
        self.value = value


class BreakOut(Exception):
    def __init__(self, name, value):
        self.name = name
        self.value = value


class EndBlock(Exception):
    """A matching `case x: {..}` ends the block it stands in (the rest of that block is skipped, nothing else)."""


class Throw(Exception):
    def __init__(self, value):
        self.value = value


class ScriptError(Exception):
    """The reference program itself is erroneous (generator bug or deliberately faulty statement)."""


class Budget(Exception):
    pass


class RuntimeErr(Exception):
    """A statement raised an SQF runtime error (error-level diagnostic)."""


ERR_CODE = {
    "type": '1 + "a"',
    "index": "[1] select 5",
    "count-behaviour": "{5} count [1]",
    "findif-behaviour": "[1] findIf {5}",
    "select-behaviour": "[1] select {5}",
    "while-cond": "while {1} do {}",
    "compile": 'call compile "1 +"',
    "assert": "assert false",
}


# ---------------------------------------------------------------- rendering
def lit(v):
    if v is None:
        return "nil"
    if v is True:
        return "true"
    if v is False:
        return "false"
    if isinstance(v, str):
        return '"' + v.replace('"', '""') + '"'
    if isinstance(v, (list, tuple)):
        return "[" + ",".join(lit(x) for x in v) + "]"
    if isinstance(v, float) and v == int(v):
        return str(int(v))
    return str(v)


def rexpr(e):
    k = e[0] if isinstance(e, tuple) else None
    if k is None:
        return lit(e)
    if k == "lit":
        return lit(e[1])
    if k == "xgt":
        return "_x > %s" % lit(e[1])
    if k == "veq":
        return "%s == %s" % (e[1], lit(e[2]))
    if k == "xplus":
        return "_x + %s" % lit(e[1])
    if k == "exc":
        return "_exception"
    if k == "this":
        return "_this"
    if k == "var":
        return e[1]
    return render_stmt(e)


def render_block(b, sep="; "):
    return sep.join(render_stmt(s) for s in b)


def blk(b):
    return "{" + render_block(b) + "}"


def blk_tail(b, tail):
    inner = render_block(b)
    return "{" + (inner + "; " if inner else "") + rexpr(tail) + "}"


def render_stmt(s):
    k = s[0]
    if k == "mark":
        return "diag_log str %d" % s[1]
    if k == "lit":
        return lit(s[1])
    if k in ("xgt", "xplus", "exc", "this", "var", "veq"):
        return rexpr(s)
    if k == "rec":
        if REC_STYLE == "post":      # construct evaluated with pending operands below it
            return "diag_log str [%d, [%s]]" % (s[1], rexpr(s[2]))
        if REC_STYLE == "nested":
            return "diag_log str [%d, [77, %s], 88]" % (s[1], rexpr(s[2]))
        return "diag_log str [[%s], %d]" % (rexpr(s[2]), s[1])
    if k == "recx":
        return "diag_log str [%d, %s]" % (s[1], ", ".join(s[2]))
    if k == "if":
        t = "if (%s) then %s" % (rexpr(s[1]), blk(s[2]))
        if s[3] is not None:
            t += " else " + blk(s[3])
        return t
    if k == "exitwith":
        return "if (%s) exitWith %s" % (rexpr(s[1]), blk(s[2]))
    if k == "while":
        w = "_w%d" % s[1]
        body = render_block(s[3])
        return "%s = 0; while {%s < %d} do {%s = %s + 1%s}" % (w, w, s[2], w, w, "; " + body if body else "")
    if k == "for":
        t = 'for "%s" from %s to %s' % (s[1], lit(s[2]), lit(s[3]))
        if s[4] is not None:
            t += " step %s" % lit(s[4])
        return t + " do " + blk(s[5])
    if k == "foreach":
        return "%s forEach %s" % (blk(s[2]), lit(s[1]))
    if k == "count":
        return "%s count %s" % (blk_tail(s[2], s[3]), lit(s[1]))
    if k == "select":
        return "%s select %s" % (lit(s[1]), blk_tail(s[2], s[3]))
    if k == "apply":
        return "%s apply %s" % (lit(s[1]), blk_tail(s[2], s[3]))
    if k == "findif":
        return "%s findIf %s" % (lit(s[1]), blk_tail(s[2], s[3]))
    if k == "switch":
        parts = []
        cases = list(s[2])
        dflt = s[3]
        n = len(cases)
        for i in range(n + 1):
            if dflt is not None and dflt[0] == i:
                parts.append("default %s" % blk(dflt[1]))
            if i < n:
                val, b = cases[i]
                parts.append("case %s%s" % (lit(val), ": " + blk(b) if b is not None else ""))
        return "switch (%s) do {%s}" % (rexpr(s[1]), "; ".join(parts))
    if k == "switchb":
        return "switch (%s) do %s" % (rexpr(s[1]), blk(s[2]))
    if k == "case":
        return "case %s%s" % (lit(s[1]), ": " + blk(s[2]) if s[2] is not None else "")
    if k == "default":
        return "default %s" % blk(s[1])
    if k == "call":
        return ("%s call %s" % (rexpr(s[1]), blk(s[2]))) if s[1] is not None else "call " + blk(s[2])
    if k == "try":
        return "try %s catch %s" % (blk(s[1]), blk(s[2]))
    if k == "throw":
        return "throw %s" % rexpr(s[1])
    if k == "scopename":
        return 'scopeName "%s"' % s[1]
    if k == "breakout":
        return ('%s breakOut "%s"' % (rexpr(s[1]), s[2])) if s[1] is not None else 'breakOut "%s"' % s[2]
    if k == "and":
        return "%s && %s" % (rexpr(s[1]), blk_tail(s[2], s[3]))
    if k == "or":
        return "%s || %s" % (rexpr(s[1]), blk_tail(s[2], s[3]))
    if k == "arr":
        return "[" + ", ".join(rexpr(x) for x in s[1]) + "]"
    if k == "err":
        return "\n" + ERR_CODE[s[1]] + "\n"
    if k == "except":
        return "%s except__ %s" % (blk(s[1]), blk(s[2]))
    if k == "excnil":
        return 'diag_log str [%d, isNil "_exception"]' % s[1]
    if k == "assign":
        return "%s = %s" % (s[1], rexpr(s[2]))
    if k == "passign":
        return "private %s = %s" % (s[1], rexpr(s[2]))
    if k == "raw":
        return s[1]
    raise ValueError("render: %r" % (s,))


def render_program(block, sep=";\n"):
    return render_block(block, sep)


# ---------------------------------------------------------------- interpretation
class Env:
    def __init__(self, parent=None):
        self.vars = {}
        self.parent = parent
        self.scope_name = None

    def get(self, n):
        e = self
        while e is not None:
            if n in e.vars:
                return e.vars[n]
            e = e.parent
        return None


class Interp:
    def __init__(self, budget=20000):
        self.trace = []
        self.budget = budget

    def tick(self):
        self.budget -= 1
        if self.budget < 0:
            raise Budget()

    # a block: returns (value, exited_early)
    def run_block(self, b, env, new_scope=True, bind=None):
        e = Env(env) if new_scope else env
        if bind:
            e.vars.update(bind)
        val = None
        try:
            for s in b:
                val = self.stmt(s, e)
            return val, False
        except ExitScope as x:
            return x.value, True
        except EndBlock:
            return None, False
        except BreakOut as x:
            if e.scope_name is not None and e.scope_name == x.name:
                return x.value, True
            raise

    def cond(self, c, env):
        v = self.expr(c, env)
        if not isinstance(v, bool):
            raise ScriptError("condition not boolean: %r" % (v,))
        return v

    def expr(self, e, env):
        if not isinstance(e, tuple):
            return e
        k = e[0]
        if k == "lit":
            return e[1]
        if k == "xgt":
            return env.get("_x") > e[1]
        if k == "veq":
            return env.get(e[1]) == e[2]
        if k == "xplus":
            return env.get("_x") + e[1]
        if k == "exc":
            return env.get("_exception")
        if k == "this":
            return env.get("_this")
        if k == "var":
            return env.get(e[1])
        return self.stmt(e, env)

    def stmt(self, s, env):
        self.tick()
        k = s[0]
        if k == "mark":
            self.trace.append(s[1])
            return None
        if k in ("lit", "xgt", "xplus", "exc", "this", "var", "veq"):
            return self.expr(s, env)
        if k == "rec":
            v = self.expr(s[2], env)
            if REC_STYLE == "post":
                self.trace.append([s[1], [v]])
            elif REC_STYLE == "nested":
                self.trace.append([s[1], [77, v], 88])
            else:
                self.trace.append([[v], s[1]])
            return None
        if k == "recx":
            self.trace.append([s[1]] + [env.get(n) for n in s[2]])
            return None
        if k == "if":
            if self.cond(s[1], env):
                return self.run_block(s[2], env)[0]
            if s[3] is not None:
                return self.run_block(s[3], env)[0]
            return None
        if k == "exitwith":
            if self.cond(s[1], env):
                v, _ = self.run_block(s[2], env)
                raise ExitScope(v)
            return None
        if k == "while":
            n = 0
            val = None
            wname = "_w%d" % s[1]
            holder = env
            while holder is not None and wname not in holder.vars:
                holder = holder.parent
            holder = holder or env
            holder.vars[wname] = 0
            while n < s[2]:
                n += 1
                holder.vars[wname] = n
                self.tick()
                val, ex = self.run_block(s[3], env)
                if ex:
                    break
            return val
        if k == "for":
            a, b, st = s[2], s[3], (1 if s[4] is None else s[4])
            if st == 0:
                raise ScriptError("for step 0")
            i = a
            val = None
            while (i <= b) if st > 0 else (i >= b):
                self.tick()
                val, ex = self.run_block(s[5], env, bind={s[1]: i})
                if ex:
                    break
                i += st
            return val
        if k == "foreach":
            val = None
            for idx, x in enumerate(s[1]):
                val, ex = self.run_block(s[2], env, bind={"_x": x, "_forEachIndex": idx})
                if ex:
                    break
            return val
        if k in ("count", "select", "apply", "findif"):
            arr = s[1]
            out = []
            cnt = 0
            found = -1
            for idx, x in enumerate(arr):
                e = Env(env)
                e.vars["_x"] = x
                for st in s[2]:
                    self.stmt(st, e)
                r = self.expr(s[3], e)
                if k == "apply":
                    out.append(r)
                    continue
                if not isinstance(r, bool):
                    raise ScriptError("predicate not boolean")
                if k == "count":
                    cnt += 1 if r else 0
                elif k == "select":
                    if r:
                        out.append(x)
                elif k == "findif" and r:
                    found = idx
                    break
            return {"count": cnt, "select": out, "apply": out, "findif": found}[k]
        if k == "switch":
            v = self.expr(s[1], env)
            cases = s[2]
            matched = None
            for i, (cv, b) in enumerate(cases):
                if self.sqf_eq(cv, v):
                    j = i
                    while j < len(cases) and cases[j][1] is None:
                        j += 1
                    matched = cases[j][1] if j < len(cases) else None
                    if matched is None:
                        matched = []  # trailing fall-through without block: nothing to run
                    break
            if matched is None and s[3] is not None:
                matched = s[3][1]
            if matched is None:
                return None
            return self.run_block(matched, env)[0]
        if k == "switchb":
            st = {"val": self.expr(s[1], env), "now": False, "has": False, "target": None}
            e = Env(env)
            e.vars["___switch"] = st
            self.run_block(s[2], e, new_scope=False)
            if st["target"] is None:
                return None
            return self.run_block(st["target"], e, new_scope=False)[0]
        if k in ("case", "default"):
            st = env.get("___switch")
            if st is None:
                raise ScriptError("case outside switch")
            if k == "default":
                if not st["has"]:
                    st["target"] = s[1]
                return None
            if self.sqf_eq(s[1], st["val"]):
                st["now"] = True
            if s[2] is not None and not st["has"] and st["now"]:
                st["target"], st["now"], st["has"] = s[2], False, True
                raise EndBlock()
            return None
        if k == "call":
            bind = {}
            if s[1] is not None:
                bind["_this"] = self.expr(s[1], env)
            return self.run_block(s[2], env, bind=bind)[0]
        if k == "try":
            try:
                return self.run_block(s[1], env)[0]
            except Throw as t:
                return self.run_block(s[2], env, bind={"_exception": t.value})[0]
        if k == "throw":
            raise Throw(self.expr(s[1], env))
        if k == "scopename":
            if env.scope_name is not None:
                raise ScriptError("scopeName twice")
            env.scope_name = s[1]
            return None
        if k == "breakout":
            v = self.expr(s[1], env) if s[1] is not None else None
            e = env
            while e is not None and e.scope_name != s[2]:
                e = e.parent
            if e is None:
                raise ScriptError("breakOut target missing")
            raise BreakOut(s[2], v)
        if k in ("and", "or"):
            c = self.cond(s[1], env)
            if (k == "and" and not c) or (k == "or" and c):
                return c
            e = Env(env)
            for st in s[2]:
                self.stmt(st, e)
            r = self.expr(s[3], e)
            if not isinstance(r, bool):
                raise ScriptError("lazy operand not boolean")
            return r
        if k == "arr":
            return [self.expr(x, env) for x in s[1]]
        if k == "err":
            raise RuntimeErr(s[1])
        if k == "except":
            try:
                return self.run_block(s[1], env)[0]
            except RuntimeErr as x:
                return self.run_block(s[2], env, bind={"_exception": "<error>"})[0]
        if k == "excnil":
            self.trace.append([s[1], env.get("_exception") is None])
            return None
        if k in ("assign", "passign"):
            v = self.expr(s[2], env)
            name = s[1]
            target = env
            if k == "assign":
                e = env
                while e is not None and name not in e.vars:
                    e = e.parent
                if e is not None:
                    target = e
            if v is None:
                target.vars.pop(name, None) if name in target.vars else None
            else:
                target.vars[name] = v
            return None
        raise ValueError("interp: %r" % (s,))

    @staticmethod
    def sqf_eq(a, b):
        if isinstance(a, bool) != isinstance(b, bool):
            return False
        if isinstance(a, str) and isinstance(b, str):
            return a.lower() == b.lower()   # switch compares strings like ==
        return a == b and type(a) in (int, float, bool, str) or (isinstance(a, (int, float)) and isinstance(b, (int, float)) and a == b)

    def run_program(self, block):
        """Returns (trace, final_value, status) status: 'ok' | 'throw' | 'error:<what>'."""
        env = Env(None)
        try:
            v, _ = self.run_block(block, env, new_scope=False)
            return self.trace, v, "ok"
        except Throw as t:
            return self.trace, None, "throw"
        except BreakOut:
            return self.trace, None, "error:breakout-target"
        except ScriptError as x:
            return self.trace, None, "error:%s" % x
        except RuntimeErr as x:
            return self.trace, None, "runtime-error"


# ---------------------------------------------------------------- SQF value text -> Python
def parse_value(txt):
    """Parse the `str` form of numbers, booleans, strings, nil and arrays."""
    pos = [0]
    n = len(txt)

    def ws():
        while pos[0] < n and txt[pos[0]] in " \t\n":
            pos[0] += 1

    def val():
        ws()
        c = txt[pos[0]]
        if c == "[":
            pos[0] += 1
            out = []
            ws()
            if txt[pos[0]] == "]":
                pos[0] += 1
                return out
            while True:
                out.append(val())
                ws()
                if txt[pos[0]] == ",":
                    pos[0] += 1
                    continue
                if txt[pos[0]] == "]":
                    pos[0] += 1
                    return out
                raise ValueError("array syntax at %d in %r" % (pos[0], txt))
        if c == '"':
            pos[0] += 1
            s = []
            while True:
                ch = txt[pos[0]]
                if ch == '"':
                    if pos[0] + 1 < n and txt[pos[0] + 1] == '"':
                        s.append('"')
                        pos[0] += 2
                        continue
                    pos[0] += 1
                    return "".join(s)
                s.append(ch)
                pos[0] += 1
        j = pos[0]
        while j < n and txt[j] not in ",]":
            j += 1
        tok = txt[pos[0]:j].strip()
        pos[0] = j
        if tok == "true":
            return True
        if tok == "false":
            return False
        if tok in ("nil", "any", "<null>"):
            return None
        try:
            f = float(tok)
            return int(f) if f == int(f) and "e" not in tok.lower() and abs(f) < 1e15 else f
        except ValueError:
            return ("raw", tok)

    v = val()
    ws()
    if pos[0] != n:
        raise ValueError("trailing text in %r" % txt)
    return v


def norm(v):
    """Normalise for comparison: ints/floats by value, tuples/lists as lists."""
    if isinstance(v, bool) or v is None or isinstance(v, str):
        return v
    if isinstance(v, (int, float)):
        return float(v)
    if isinstance(v, (list, tuple)):
        return [norm(x) for x in v]
    return v
