"""Expression trees, printers (minimal / full / redundant parentheses) and the reference post-order.

Tree nodes (JSON lists):
  ["num", "1"]            number literal (text)
  ["neg", "1"]            sign applied directly to a number literal: part of the literal (PUSH -1)
  ["var", "_v"]           variable (local or global)
  ["str", "\"a\""]        string literal (source text)
  ["bool", "true"]
  ["nul", "vn"]           nular operator
  ["un", "vu", T]         unary operator application
  ["bin", "vb3", P, L, R] binary operator application with precedence P (1 loosest .. 10 tightest)
  ["arr", [T...]]         array literal
  ["code", [T...]]        code literal, statements
"""


def fmt_num(txt):
    """How PUSH prints a number literal (float, %g-like shortest)."""
    import struct
    v = struct.unpack("f", struct.pack("f", float(txt)))[0]  # single precision
    return "%g" % v


def str_content(src):
    q = src[0]
    return src[1:-1].replace(q + q, q)


def canon_str(src):
    """How a string literal is printed back (always double quotes, inner double quotes doubled)."""
    return '"' + str_content(src).replace('"', '""') + '"'


def postorder(t, out=None):
    """Reference instruction listing of an expression tree."""
    if out is None:
        out = []
    k = t[0]
    if k == "num":
        out.append("PUSH " + fmt_num(t[1]))
    elif k == "neg":
        out.append("PUSH -" + fmt_num(t[1]))
    elif k == "var":
        out.append("GETVARIABLE " + t[1])
    elif k == "str":
        out.append("PUSH " + canon_str(t[1]))
    elif k == "bool":
        out.append("PUSH " + t[1])
    elif k == "nul":
        out.append("CALLNULAR " + t[1].lower())
    elif k == "un" and t[1] in ("-", "+") and t[2][0] == "num":
        # a sign applied directly to a number literal is part of the literal
        out.append("PUSH " + ("-" if t[1] == "-" else "") + fmt_num(t[2][1]))
    elif k == "un":
        postorder(t[2], out)
        out.append("CALLUNARY " + t[1].lower())
    elif k == "bin":
        postorder(t[3], out)
        postorder(t[4], out)
        out.append("CALLBINARY " + t[1].lower())
    elif k == "arr":
        for e in t[1]:
            postorder(e, out)
        out.append("MAKEARRAY %d" % len(t[1]))
    elif k == "code":
        inner = []
        for i, s in enumerate(t[1]):
            if i:
                inner.append("ENDSTATEMENT")
            postorder(s, inner)
        out.append(["CODE", inner])
    else:
        raise ValueError(k)
    return out


def value_of(t):
    """Expected value (as SQF str text) when every operator is a synthetic tree-building operator."""
    k = t[0]
    if k == "num":
        return fmt_num(t[1])
    if k == "neg":
        return "-" + fmt_num(t[1])
    if k == "nul":
        return '["%s"]' % t[1].lower()
    if k == "un":
        return '["%s",%s]' % (t[1].lower(), value_of(t[2]))
    if k == "bin":
        return '["%s",%s,%s]' % (t[1].lower(), value_of(t[3]), value_of(t[4]))
    if k == "arr":
        return "[" + ",".join(value_of(e) for e in t[1]) + "]"
    if k == "str":
        return canon_str(t[1])
    if k == "bool":
        return t[1]
    raise ValueError(k)


def _is_word(op):
    return op[0].isalpha() or op[0] == "_"


def render(t, style="min", ws=" ", opcase=None, depth=0):
    """style: 'min' minimal parentheses by precedence; 'full' every operator application parenthesised;
    'red' like full plus doubled parentheses around leaves. ws is put between all tokens."""
    oc = opcase or (lambda s: s)
    k = t[0]

    def paren(s):
        return "(" + ws + s + ws + ")"

    if k in ("num", "var", "str", "bool"):
        s = t[1]
        return paren(s) if style == "red" else s
    if k == "neg":
        return "-" + t[1]
    if k == "nul":
        s = oc(t[1])
        return paren(s) if style == "red" else s
    if k == "arr":
        return "[" + ws + ("," + ws).join(render(e, style, ws, opcase) for e in t[1]) + ws + "]"
    if k == "code":
        return "{" + ws + (";" + ws).join(render(e, style, ws, opcase) for e in t[1]) + ws + "}"
    if k == "un":
        operand = t[2]
        inner = render(operand, style, ws, opcase)
        if style == "min":
            if operand[0] == "bin":
                inner = paren(inner)
            elif operand[0] == "neg" and t[1] in ("-", "+"):
                inner = paren(inner)
        elif operand[0] in ("bin", "un") and style in ("full", "red"):
            inner = paren(inner)
        sep = ws if (ws or not _is_word(t[1])) else " "
        if not ws and _is_word(t[1]):
            sep = " "
        if not ws and not _is_word(t[1]) and inner[:1] in "+-" and t[1] in "+-":
            sep = " "
        s = oc(t[1]) + sep + inner
        return paren(s) if style in ("full", "red") and depth >= 0 else s
    if k == "bin":
        p = t[2]
        l, r = t[3], t[4]
        ls = render(l, style, ws, opcase, depth + 1)
        rs = render(r, style, ws, opcase, depth + 1)
        if style == "min":
            if l[0] == "bin" and l[2] < p:
                ls = paren(ls)
            if r[0] == "bin" and r[2] <= p:
                rs = paren(rs)
        sp = ws if ws else " "
        s = ls + sp + oc(t[1]) + sp + rs
        return paren(s) if style in ("full", "red") else s
    raise ValueError(k)


def shapes(k):
    """All binary tree shapes with k internal nodes: nested tuples ('L') leaf or (left, right)."""
    if k == 0:
        return ["L"]
    res = []
    for i in range(k):
        for a in shapes(i):
            for b in shapes(k - 1 - i):
                res.append((a, b))
    return res


def build(shape, ops, leaves):
    """Instantiate a shape with operator list (pre-order) and leaf list (left to right)."""
    ops = list(ops)
    leaves = list(leaves)

    def go(s):
        if s == "L":
            return leaves.pop(0)
        name, prec = ops.pop(0)
        l = go(s[0])
        r = go(s[1])
        return ["bin", name, prec, l, r]
    return go(shape)
