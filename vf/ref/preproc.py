"""Reference expander for the preprocessor subset named by C13 (comments, continuations, #define/#undef,
#ifdef/#ifndef/#else/#endif, #include, object-like and function-like macros with #stringify and ##concat,
whole-identifier matching, strings inviolate, inactive branches without effect)."""
import re

IDENT = re.compile(r"[A-Za-z_][A-Za-z0-9_]*")


class Macro:
    def __init__(self, name, params, body):
        self.name, self.params, self.body = name, params, body


def strip_comments_and_continuations(text, keep_string_continuations=True):
    """Phase 1: remove // and /* */ comments and backslash-newline outside double-quoted strings."""
    out = []
    i, n = 0, len(text)
    in_str = False
    while i < n:
        c = text[i]
        if in_str:
            out.append(c)
            if c == '"':
                in_str = False
            i += 1
            continue
        if c == '"':
            in_str = True
            out.append(c)
            i += 1
        elif c == "/" and i + 1 < n and text[i + 1] == "/":
            while i < n and text[i] != "\n":
                i += 1
        elif c == "/" and i + 1 < n and text[i + 1] == "*":
            j = text.find("*/", i + 2)
            seg = text[i:(j + 2 if j >= 0 else n)]
            out.append("\n" * seg.count("\n"))     # line structure is kept (directives are line based)
            i = j + 2 if j >= 0 else n
        elif c == "\\" and i + 1 < n and text[i + 1] == "\n":
            i += 2
        else:
            out.append(c)
            i += 1
    return "".join(out)


def split_args(s, i):
    """s[i] == '('. Returns (args raw list, index after ')') or None if unterminated."""
    depth = 0
    args, cur = [], []
    in_str = False
    j = i
    while j < len(s):
        c = s[j]
        if in_str:
            cur.append(c)
            if c == '"':
                in_str = False
        elif c == '"':
            in_str = True
            cur.append(c)
        elif c in "([{":
            depth += 1
            if depth > 1:
                cur.append(c)
        elif c in ")]}":
            depth -= 1
            if depth == 0:
                args.append("".join(cur).strip())
                return args, j + 1
            cur.append(c)
        elif c == "," and depth == 1:
            args.append("".join(cur).strip())
            cur = []
        else:
            cur.append(c)
        j += 1
    return None


def expand(s, macros, disabled=frozenset()):
    out = []
    i, n = 0, len(s)
    while i < n:
        c = s[i]
        if c == '"':
            j = i + 1
            while j < n:
                if s[j] == '"':
                    if j + 1 < n and s[j + 1] == '"':
                        j += 2
                        continue
                    break
                j += 1
            out.append(s[i:j + 1])
            i = j + 1
            continue
        m = IDENT.match(s, i)
        if m and (i == 0 or not (s[i - 1].isalnum() or s[i - 1] == "_")):
            name = m.group(0)
            mac = macros.get(name)
            if mac is not None and name not in disabled:
                if mac.params is None:
                    out.append(expand(mac.body, macros, disabled | {name}))
                    i = m.end()
                    continue
                if m.end() < n and s[m.end()] == "(":
                    r = split_args(s, m.end())
                    if r is not None:
                        raw, endi = r
                        out.append(expand(substitute(mac, raw, macros, disabled), macros, disabled | {name}))
                        i = endi
                        continue
            out.append(name)
            i = m.end()
            continue
        if c.isdigit():
            # numbers (and identifiers glued to them) are not macro names
            j = i
            while j < n and (s[j].isalnum() or s[j] == "_" or s[j] == "."):
                j += 1
            out.append(s[i:j])
            i = j
            continue
        out.append(c)
        i += 1
    return "".join(out)


def substitute(mac, raw_args, macros, disabled):
    params = mac.params
    amap = {p: (raw_args[k] if k < len(raw_args) else "") for k, p in enumerate(params)}
    body = mac.body
    out = []
    i, n = 0, len(body)
    while i < n:
        c = body[i]
        if c == '"':
            j = body.find('"', i + 1)
            j = n - 1 if j < 0 else j
            out.append(body[i:j + 1])
            i = j + 1
            continue
        if c == "#" and i + 1 < n and body[i + 1] == "#":
            # concatenation: drop the operator and surrounding blanks
            while out and out[-1].isspace():
                out.pop()
            i += 2
            while i < n and body[i] == " ":
                i += 1
            continue
        if c == "#":
            m = IDENT.match(body, i + 1)
            if m and m.group(0) in amap:
                out.append('"' + amap[m.group(0)] + '"')
                i = m.end()
                continue
        m = IDENT.match(body, i)
        if m and (i == 0 or not (body[i - 1].isalnum() or body[i - 1] == "_")):
            name = m.group(0)
            if name in amap:
                concat = (out and body[:i].rstrip().endswith("##")) or body[m.end():].lstrip().startswith("##")
                out.append(amap[name] if concat else expand(amap[name], macros, disabled))
            else:
                out.append(name)
            i = m.end()
            continue
        out.append(c)
        i += 1
    return "".join(out)


def logical_lines(text):
    """Lines, except that a newline inside a double-quoted string does not end the line."""
    out, cur, in_str = [], [], False
    for c in text:
        if c == '"':
            in_str = not in_str
        if c == "\n" and not in_str:
            out.append("".join(cur))
            cur = []
        else:
            cur.append(c)
    out.append("".join(cur))
    return out


def preprocess(text, files=None, macros=None):
    """-> output text (no #line bookkeeping)."""
    files = files or {}
    macros = {} if macros is None else macros
    clean = strip_comments_and_continuations(text)
    out = []
    cond = []     # stack of [active, seen_else]
    for line in logical_lines(clean):
        st = line.strip()
        active = all(c[0] for c in cond)
        if st.startswith("#"):
            m = re.match(r"#\s*(\w+)\s*(.*)$", st, re.S)
            d, rest = (m.group(1).lower(), m.group(2).strip()) if m else ("", "")
            if d in ("ifdef", "ifndef"):
                val = (rest in macros) == (d == "ifdef")
                cond.append([val and active, False])
            elif d == "else":
                if cond:
                    parent = all(c[0] for c in cond[:-1])
                    cond[-1] = [parent and not cond[-1][0], True] if not cond[-1][1] else cond[-1]
            elif d == "endif":
                if cond:
                    cond.pop()
            elif not active:
                pass
            elif d == "define":
                m2 = re.match(r"([A-Za-z_][A-Za-z0-9_]*)(\(([^)]*)\))?\s?(.*)$", rest, re.S)
                if m2:
                    params = None
                    if m2.group(2) is not None:
                        params = [p.strip() for p in m2.group(3).split(",")] if m2.group(3).strip() else []
                    macros[m2.group(1)] = Macro(m2.group(1), params, m2.group(4).strip())
            elif d == "undef":
                macros.pop(rest, None)
            elif d == "include":
                m3 = re.match(r'["<]([^">]*)[">]', rest)
                if m3 and m3.group(1).lstrip("/\\") in files:
                    out.append(preprocess(files[m3.group(1).lstrip("/\\")], files, macros))
            out.append("")
            continue
        if not active:
            out.append("")
            continue
        out.append(expand(line, macros))
    return "\n".join(out)


TOKEN = re.compile(r'"(?:[^"]|"")*"|[A-Za-z_][A-Za-z0-9_]*|\d+(?:\.\d+)?|\S')


def tokens(text):
    """Tokens outside strings, strings verbatim; #line bookkeeping lines are dropped."""
    lines = [l for l in text.split("\n") if not l.lstrip().startswith("#line")]
    return TOKEN.findall("\n".join(lines))
