"""Independent PBO packer written from the format description (not from the reader under test).

Layout: version entry (empty name, method 'Vers', zeros), properties as NUL-terminated key/value strings ended by an
empty string, entry table (name NUL, method u32, original size u32, reserved u32, timestamp u32, data size u32) ended by
an all-zero entry, file data in table order, optional trailer (NUL + 20-byte SHA-1)."""
import hashlib, struct


def pack(props, files, trailer=True):
    """props: list of (key, value); files: list of (name, bytes). Returns (blob, layout) where layout maps region names
    to (start, end) byte offsets: 'header', 'props', 'table', 'data', and per file ('size_field', i) / ('data', i)."""
    out = bytearray()
    layout = {}
    out += b"\x00" + b"sreV" + struct.pack("<IIII", 0, 0, 0, 0)
    layout["header"] = (0, len(out))
    s = len(out)
    for k, v in props:
        out += k.encode("latin-1") + b"\x00" + v.encode("latin-1") + b"\x00"
    out += b"\x00"
    layout["props"] = (s, len(out))
    s = len(out)
    for i, (name, data) in enumerate(files):
        out += name.encode("latin-1") + b"\x00"
        out += struct.pack("<I", 0)
        layout[("orig_size_field", i)] = (len(out), len(out) + 4)
        out += struct.pack("<I", 0)
        out += struct.pack("<II", 0, 1600000000 + i)
        layout[("size_field", i)] = (len(out), len(out) + 4)
        out += struct.pack("<I", len(data))
    out += b"\x00" + struct.pack("<IIIII", 0, 0, 0, 0, 0)
    layout["table"] = (s, len(out))
    s = len(out)
    for i, (name, data) in enumerate(files):
        layout[("data", i)] = (len(out), len(out) + len(data))
        out += data
    layout["data"] = (s, len(out))
    if trailer:
        out += b"\x00" + hashlib.sha1(bytes(out)).digest()
    return bytes(out), layout
