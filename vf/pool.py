"""Driver worker process wrapper (one vdriver subprocess, line-delimited JSON)."""
import json, os, subprocess, tempfile
from . import build

ASAN_DEFAULT = ("detect_leaks=0:abort_on_error=0:allocator_may_return_null=0:"
                "detect_stack_use_after_return=0:handle_abort=1:symbolize=1:"
                "max_allocation_size_mb=%d:hard_rss_limit_mb=%d")


class Worker:
    def __init__(self, variant="asan", max_alloc_mb=1024, rss_mb=4096, env_extra=None):
        self.variant = variant
        self.exe = build.driver(variant)
        self.env = dict(os.environ)
        self.env["ASAN_OPTIONS"] = ASAN_DEFAULT % (max_alloc_mb, rss_mb)
        self.env["UBSAN_OPTIONS"] = "print_stacktrace=1:halt_on_error=1"
        self.env["TSAN_OPTIONS"] = "halt_on_error=0:report_signal_unsafe=0:second_deadlock_stack=1"
        self.env["ASAN_SYMBOLIZER_PATH"] = "/usr/bin/llvm-symbolizer"
        if env_extra:
            self.env.update(env_extra)
            if env_extra.get("NOSYM"):
                self.env["ASAN_OPTIONS"] = self.env["ASAN_OPTIONS"].replace("symbolize=1", "symbolize=0")
                self.env["UBSAN_OPTIONS"] = "print_stacktrace=0:halt_on_error=1:symbolize=0"
        self.p = None
        self.errf = None
        self.restarts = 0

    def start(self):
        self.errf = tempfile.TemporaryFile(dir=build.BUILD)
        self.p = subprocess.Popen([self.exe], stdin=subprocess.PIPE, stdout=subprocess.PIPE,
                                  stderr=self.errf, env=self.env, cwd=build.BUILD)

    def close(self):
        if self.p:
            try:
                self.p.stdin.close()
                self.p.wait(timeout=5)
            except Exception:
                self.p.kill()
            self.p = None
        if self.errf:
            self.errf.close()
            self.errf = None

    def call(self, req):
        """Send one request. Returns the response dict. If the worker itself dies (non-forked
        request crashed it) returns {'outcome': 'crash', 'kind': 'worker-died', 'stderr': ...}."""
        if self.p is None or self.p.poll() is not None:
            self.close()
            self.start()
        line = json.dumps(req, ensure_ascii=True, separators=(",", ":")) + "\n"
        try:
            self.p.stdin.write(line.encode("ascii"))
            self.p.stdin.flush()
            out = self.p.stdout.readline()
        except (BrokenPipeError, OSError):
            out = b""
        if not out:
            self.p.wait()
            self.errf.seek(0)
            err = self.errf.read().decode("latin-1")[-6000:]
            rc = self.p.returncode
            self.close()
            self.restarts += 1
            return {"outcome": "crash", "kind": "worker-died", "exit": rc, "stderr": err, "frame": ""}
        return json.loads(out.decode("ascii"))

    def __enter__(self):
        return self

    def __exit__(self, *a):
        self.close()
