"""python3 -m vf.try1 [--variant asan] '<sqf text>' ...  : run each text in a forked child of the driver and print outcome + log (debug aid)."""
import sys
from .pool import Worker

def main():
    args = sys.argv[1:]
    variant = "asan"
    if args and args[0] == "--variant":
        variant = args[1]; args = args[2:]
    from .checks import c09
    if args and args[0] == "--file":
        args = [l.rstrip("\n") for l in open(args[1]) if l.strip()]
    w = Worker(variant, max_alloc_mb=256)
    for t in args:
        r = w.call({"mode": "eval", "fork": True, "timeout_ms": 10000, "conf": {"ops": "full"}, "config": c09.CONFIG, "texts": [c09.PRELUDE + t]})
        if r["outcome"] != "ok":
            print("%-50s -> %s %s | %s" % (t[:50], r["outcome"], r.get("kind"), r.get("frame", "")[:150]))
        else:
            it = r["result"]["items"][0]
            print("%-50s -> ok %s" % (t[:50], [m["msg"][:110] for m in it["log"]][:3]))
    w.close()

if __name__ == "__main__":
    main()
