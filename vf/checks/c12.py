"""C12 - scheduler is fair and isolating; sleep, scriptDone, terminate work as documented.

Script sets (2-3 scripts of several lengths, optional sleep / spawn in the middle) are run under every slice length
(guarded hook overrides the slice) and the scheduler's own turn trace (hook events) is checked: round-robin (between two
consecutive turns of a script every other live script gets exactly one turn), slice bound, per-script order and
results equal to running alone. Sleep timing, scriptDone and terminate are probed at every relative alignment of the
events under a virtual clock.
"""
import itertools
from ..engine import Space
from ..ref import sqf_interp as I

PROPERTY = "C12"
LEVEL = "model_checking"
VARIANTS = ["fast"]
RULE = ("fairness: all sets of 2-4 (quick) / 2-5 (thorough) scripts over 7 script shapes x slice lengths {1,2,3,5,7,150} x 2 clock ticks; states = scheduler turns "
        "observed (slice_begin events), transitions = instructions; sleep: durations x competitors x slices; scriptDone/terminate: child "
        "lengths x delay before terminate x slices; a case = (script set, slice, tick); non-trivial = >=2 scripts alive at the same time")
ASSUMPTIONS = [
    "time is virtual: every clock query advances it by the tick (so sleeping scripts always wake up eventually)",
    "a script's `turn` is a slice_begin event of the scheduler, also when it is asleep and executes nothing",
    "scriptDone is judged false right after spawn (nothing of the child ran yet) and true once the child finished and had a further turn",
]
DEADLINE_S = {"quick": 420, "thorough": 1500}


def marks(tag, n, start=0):
    return "; ".join('_s = _s + %d; diag_log str ["%s", %d, _s]' % (k, tag, k) for k in range(start, start + n))


SHAPES = {
    "short": lambda t: "private _s = 0; " + marks(t, 1),
    "medium": lambda t: "private _s = 0; " + marks(t, 4),
    "long": lambda t: "private _s = 0; " + marks(t, 12),
    "sleeper": lambda t: "private _s = 0; " + marks(t, 2) + "; sleep 0.002; " + marks(t, 2, 2),
    "spawner": lambda t: "private _s = 0; " + marks(t, 1) + '; [] spawn { private _s = 100; ' + marks(t + "c", 3) + " }; " + marks(t, 3, 1),
    # gives its turn back after every statement (runnable again at once)
    "yielder": lambda t: "private _s = 0; " + "; sleep 0; ".join(marks(t, 1, k) for k in range(3)),
    # nothing to run: finished before its first turn is over
    "empty": lambda t: "",
}


def expected_marks(shape, tag):
    def seq(tg, n, start, s0):
        out, s = [], s0
        for k in range(start, start + n):
            s += k
            out.append([tg, k, s])
        return out, s
    if shape == "short":
        return {tag: seq(tag, 1, 0, 0)[0]}
    if shape == "medium":
        return {tag: seq(tag, 4, 0, 0)[0]}
    if shape == "long":
        return {tag: seq(tag, 12, 0, 0)[0]}
    if shape == "sleeper":
        a, s = seq(tag, 2, 0, 0)
        b, _ = seq(tag, 2, 2, s)
        return {tag: a + b}
    if shape == "yielder":
        return {tag: seq(tag, 3, 0, 0)[0]}
    if shape == "empty":
        return {}
    if shape == "spawner":
        a, s = seq(tag, 1, 0, 0)
        b, _ = seq(tag, 3, 1, s)
        return {tag: a + b, tag + "c": seq(tag + "c", 3, 0, 100)[0]}


SLICES = [1, 2, 3, 5, 7, 150]


def gen_fair(nscripts, slices, ticks):
    def g():
        names = list(SHAPES)
        for n in nscripts:
            for combo in itertools.product(names, repeat=n):
                for s in slices:
                    for t in ticks:
                        yield [list(combo), s, t]
    return g


def run(ws, scripts, slice_, tick, extra_steps=None, conf=None):
    steps = [dict({"op": "vm", "id": 0, "ops": "full", "max_runtime_ms": 0}, **(conf or {}))]
    for i, text in enumerate(scripts):
        steps.append({"op": "sqf", "id": 0, "text": text, "suspendable": True, "name": "S%d" % i, "path": "s%d.sqf" % i})
    steps.append({"op": "exec", "id": 0, "action": "start"})
    return ws.call({"mode": "steps", "fork": True, "timeout_ms": 30000, "clock": {"tick_us": tick}, "slice": slice_, "slice_trace": True,
                    "steps": steps}, variant="fast")


def check_turns(slices, slice_len):
    """P1/P2 on the scheduler's turn trace. Returns (kind, text) or None."""
    for sl in slices:
        if sl["n"] > slice_len:
            return "slice-too-long", "a turn executed %d instructions, slice length is %d" % (sl["n"], slice_len)
    # lifetime of each context in turn indices
    first, last = {}, {}
    for i, sl in enumerate(slices):
        first.setdefault(sl["ctx"], i)
        last[sl["ctx"]] = i
    # erased contexts stop at their 'erased' turn
    by_ctx = {}
    for i, sl in enumerate(slices):
        by_ctx.setdefault(sl["ctx"], []).append(i)
    for a, idxs in by_ctx.items():
        for i0, i1 in zip(idxs, idxs[1:]):
            between = [slices[j]["ctx"] for j in range(i0 + 1, i1)]
            for b in by_ctx:
                if b == a:
                    continue
                if first[b] < i0 and last[b] > i1:      # alive throughout
                    c = between.count(b)
                    if c != 1:
                        return ("starved" if c == 0 else "extra-turn"), "between two consecutive turns of script %d (turn %d and %d) script %d got %d turns" % (a, i0, i1, b, c)
    return None


def check_fair(ws, case):
    combo, slice_len, tick = case
    scripts, exp = [], {}
    for i, sh in enumerate(combo):
        tag = "s%d" % i
        scripts.append(SHAPES[sh](tag))
        exp.update(expected_marks(sh, tag))
    r = run(ws, scripts, slice_len, tick)
    feat = "+".join(sorted(set(combo)))
    if r["outcome"] != "ok":
        return [("C12|fairness|%s|%s" % (r.get("kind", r["outcome"]), feat), "scripts %r slice %d: %s" % (combo, slice_len, r.get("kind", r["outcome"])), None, case)], {"n": 1}
    res = r["result"]
    sl = res["slices"]
    info = {"n": 1, "nontrivial": 1, "states": len(sl), "transitions": sum(x["n"] for x in sl), "executions": 1}
    v = check_turns(sl, slice_len)
    if v:
        return [("C12|fairness|%s|%s" % (v[0], feat), "scripts %r slice %d tick %d: %s" % (combo, slice_len, tick, v[1]), None, case)], info
    got = {}
    errs = []
    for m in res["log"]:
        if m["code"] == 60019:
            val = I.parse_value(m["msg"].split("[DIAG_LOG] ", 1)[1])
            got.setdefault(val[0], []).append([val[0], int(val[1]), int(val[2])])
        elif m["lvl"] <= 1:
            errs.append(m["msg"])
    if got != exp:
        bad = [k for k in exp if got.get(k) != exp[k]][:1]
        return [("C12|isolation|own-order-or-result-changed|%s" % feat, "scripts %r slice %d: script %s logged %r, alone it logs %r" % (
            combo, slice_len, bad, got.get(bad[0]) if bad else None, exp.get(bad[0]) if bad else None), None, case)], info
    if errs:
        return [("C12|fairness|error-log|%s" % feat, "scripts %r slice %d: %s" % (combo, slice_len, errs[0][:120]), None, case)], info
    return [], info


# ---------------------------------------------------------------- sleep
# time passes while scripts work (every clock query advances the virtual clock): `pre` decides how much of it passes
# between the start of the scheduler round and the moment the sleep is issued
BURN = "; ".join(["diag_tickTime"] * 12)
PRES = ["none", "work-before-sleep", "burner-scheduled-first", "limit-clock-per-instruction"]


def gen_sleep(slices):
    for d in (0, 0.001, 0.003, 0.02):
        for comp in ("none", "long", "sleeper"):
            for s in slices:
                for tick in (50, 500):
                    for pre in PRES:
                        yield [d, comp, s, tick, pre]


def check_sleep(ws, case):
    d, comp, slice_len, tick, pre = case
    main = 'private _a = diag_tickTime; sleep %s; private _b = diag_tickTime; diag_log str ["slept", _b - _a]' % d
    if pre == "work-before-sleep":
        main = BURN + "; " + main
    scripts = [main] + ([] if comp == "none" else [SHAPES[comp]("c")])
    if pre == "burner-scheduled-first":
        scripts = ["for \"_k\" from 1 to 6 do { %s }" % BURN] + scripts
    r = run(ws, scripts, slice_len, tick, conf={"max_runtime_ms": 3600000} if pre == "limit-clock-per-instruction" else None)
    if r["outcome"] != "ok":
        return [("C12|sleep|%s" % r.get("kind", r["outcome"]), "sleep %s with %s: %s" % (d, comp, r.get("kind", r["outcome"])), None, case)], {"n": 1}
    res = r["result"]
    info = {"n": 1, "nontrivial": 1 if comp != "none" else 0, "states": len(res["slices"]), "transitions": sum(x["n"] for x in res["slices"]), "executions": 1}
    vals = [I.parse_value(m["msg"].split("[DIAG_LOG] ", 1)[1]) for m in res["log"] if m["code"] == 60019 and "slept" in m["msg"]]
    if not vals:
        return [("C12|sleep|no-result", "sleep %s: script did not finish: %s" % (d, [m["msg"][:80] for m in res["log"] if m["lvl"] <= 1][:1]), None, case)], info
    slept = vals[0][1]
    # diag_tickTime has millisecond resolution
    if slept + 0.0011 < d:
        return [("C12|sleep|resumed-early", "sleep %s resumed after %.4f s of virtual time (slice %d, competitor %s)" % (d, slept, slice_len, comp + "/" + pre), None, case)], info
    # also on the trace: no turn of the sleeping context executes instructions before its wake-up time
    v = check_turns(res["slices"], slice_len)
    if v:
        return [("C12|sleep|%s" % v[0], "sleep %s with %s slice %d: %s" % (d, comp, slice_len, v[1]), None, case)], info
    return [], info


# ---------------------------------------------------------------- scriptDone / terminate
def gen_term(slices):
    for child_len in (1, 5, 20):
        for delay in ("none", "sleep0", "sleep-short", "sleep-long"):
            for s in slices:
                for action in ("terminate", "observe"):
                    yield [child_len, delay, s, action]


def check_term(ws, case):
    child_len, delay, slice_len, action = case
    child = "; ".join('diag_log str ["c", %d]' % k for k in range(child_len))
    dl = {"none": "", "sleep0": "sleep 0; ", "sleep-short": "sleep 0.001; ", "sleep-long": "sleep 0.05; "}[delay]
    act = 'terminate H; diag_log str ["T"]; ' if action == "terminate" else 'diag_log str ["T"]; '
    main = ('H = [] spawn { %s }; diag_log str ["d0", scriptDone H]; %s%ssleep 0.1; diag_log str ["d1", scriptDone H]' % (child, dl, act))
    r = run(ws, [main], slice_len, 100)
    if r["outcome"] != "ok":
        return [("C12|%s|%s" % (action, r.get("kind", r["outcome"])), "child %d delay %s slice %d: %s" % (child_len, delay, slice_len, r.get("kind", r["outcome"])), None, case)], {"n": 1}
    res = r["result"]
    info = {"n": 1, "nontrivial": 1, "states": len(res["slices"]), "transitions": sum(x["n"] for x in res["slices"]), "executions": 1}
    seq = [I.parse_value(m["msg"].split("[DIAG_LOG] ", 1)[1]) for m in res["log"] if m["code"] == 60019]
    names = [s[0] for s in seq]
    if "T" not in names or "d1" not in names:
        return [("C12|%s|script-did-not-finish" % action, "main script did not finish: %r %s" % (names, [m["msg"][:80] for m in res["log"] if m["lvl"] <= 1][:1]), None, case)], info
    d0 = [s for s in seq if s[0] == "d0"][0][1]
    d1 = [s for s in seq if s[0] == "d1"][0][1]
    ti = names.index("T")
    child_after = [s for s in seq[ti + 1:] if s[0] == "c"]
    child_before = [s for s in seq[:ti] if s[0] == "c"]
    d0i = names.index("d0")
    child_after_d0 = [s for s in seq[d0i + 1:] if s[0] == "c"]
    if d0 is not False and child_after_d0:
        return [("C12|scriptDone|true-while-statements-left", "scriptDone right after spawn is %r but the child still executed %d statements afterwards" % (d0, len(child_after_d0)), None, case)], info
    if action == "terminate":
        if child_after and len(child_before) < child_len:
            return [("C12|terminate|target-ran-after-terminate", "child executed %d more statements after terminate (delay %s, slice %d)" % (len(child_after), delay, slice_len), None, case)], info
    else:
        allc = [s for s in seq if s[0] == "c"]
        if [s[1] for s in allc] != list(range(child_len)):
            return [("C12|scriptDone|child-incomplete", "child logged %r" % (allc,), None, case)], info
    if d1 is not True:
        return [("C12|scriptDone|false-after-finish", "scriptDone 0.1 s after the child %s is %r" % ("was terminated" if action == "terminate" else "finished", d1), None, case)], info
    return [], info


def gen_selfterm(slices):
    for before in (0, 2):                      # statements between terminate and the scheduling point
        for point in ("sleep 0", "sleep 0.001", "uiSleep 0.001", "sleep 0.05"):
            for who in ("thisScript", "handle"):       # the spawned child names itself through _thisScript / through the global handle
                for s in slices:
                    yield [before, point, who, s]


def check_selfterm(ws, case):
    """A script that terminates ITSELF keeps running to its next scheduling point (sleep / end of slice) and nothing after it."""
    before, point, who, slice_len = case
    body = 'diag_log str ["s", 0]; terminate %s; %s%s; diag_log str ["after", 1]; diag_log str ["after", 2]' % (
        "_thisScript" if who == "thisScript" else "H", "".join('diag_log str ["b", %d]; ' % k for k in range(before)), point)
    main = 'H = [] spawn { %s }; sleep 0.2; diag_log str ["d1", scriptDone H]' % body
    r = run(ws, [main], slice_len, 100)
    if r["outcome"] != "ok":
        return [("C12|self-terminate|%s" % r.get("kind", r["outcome"]), "%r: %s" % (case, r.get("kind", r["outcome"])), None, case)], {"n": 1}
    res = r["result"]
    info = {"n": 1, "nontrivial": 1, "states": len(res["slices"]), "transitions": sum(x["n"] for x in res["slices"]), "executions": 1}
    seq = [I.parse_value(m["msg"].split("[DIAG_LOG] ", 1)[1]) for m in res["log"] if m["code"] == 60019]
    names = [x[0] for x in seq]
    if "s" not in names:
        return [("C12|self-terminate|script-did-not-start", "nothing logged: %r" % [m["msg"][:80] for m in res["log"] if m["lvl"] <= 1][:1], None, case)], info
    if "after" in names:
        return [("C12|terminate|self-terminated-script-ran-after-scheduling-point", "%s terminated itself, reached `%s` and still executed %d statements after it (slice %d)" % (
            who, point, names.count("after"), slice_len), None, case)], info
    if True:
        d1 = [x for x in seq if x[0] == "d1"]
        if not d1 or d1[0][1] is not True:
            return [("C12|scriptDone|false-after-self-terminate", "scriptDone of a script that terminated itself is %r 0.2 s later" % (d1[0][1] if d1 else None), None, case)], info
    return [], info


def gen_waituntil(slices):
    for n in (1, 2, 5):                         # the condition is true at its n-th evaluation
        for how in ("counter", "flag"):         # own counter / a flag another script sets after sleeping
            for comp in ("none", "long"):
                for s in slices:
                    yield [n, how, comp, s]


def check_waituntil(ws, case):
    """waitUntil resumes the script when - and not before - its condition is true."""
    n, how, comp, slice_len = case
    if how == "counter":
        main = 'private _k = 0; waitUntil { _k = _k + 1; diag_log str ["ev", _k]; _k >= %d }; diag_log str ["end", _k]' % n
    else:
        main = ('WUF = 0; [] spawn { for "_j" from 1 to %d do { sleep 0.002; WUF = _j; diag_log str ["set", _j] } }; '
                'waitUntil { WUF >= %d }; diag_log str ["end", WUF]') % (n, n)
    scripts = [main] + ([] if comp == "none" else [SHAPES[comp]("c")])
    r = run(ws, scripts, slice_len, 100)
    if r["outcome"] != "ok":
        return [("C12|waitUntil|%s" % r.get("kind", r["outcome"]), "%r: %s" % (case, r.get("kind", r["outcome"])), None, case)], {"n": 1}
    res = r["result"]
    info = {"n": 1, "nontrivial": 1, "states": len(res["slices"]), "transitions": sum(x["n"] for x in res["slices"]), "executions": 1}
    seq = [I.parse_value(m["msg"].split("[DIAG_LOG] ", 1)[1]) for m in res["log"] if m["code"] == 60019]
    seq = [x for x in seq if x[0] in ("ev", "set", "end")]
    ends = [x for x in seq if x[0] == "end"]
    if not ends:
        return [("C12|waitUntil|never-resumed", "%r: the waiting script never continued: %r %s" % (case, seq[-3:], [m["msg"][:80] for m in res["log"] if m["lvl"] <= 1][:1]), None, case)], info
    if int(ends[0][1]) < n:
        return [("C12|waitUntil|resumed-before-condition-true", "waitUntil let the script continue when its condition was still false (%s %d of %d): %r" % (
            "evaluation" if how == "counter" else "flag value", int(ends[0][1]), n, seq[:6]), None, case)], info
    if how == "counter" and [int(x[1]) for x in seq if x[0] == "ev"] != list(range(1, n + 1)):
        return [("C12|waitUntil|condition-evaluations", "condition evaluated %r times, expected 1..%d" % ([int(x[1]) for x in seq if x[0] == "ev"], n), None, case)], info
    return [], info


def spaces(tier):
    q = tier == "quick"
    sl = [1, 2, 3, 7, 150] if q else SLICES
    return [Space("fairness", gen_fair([2, 3, 4] if q else [2, 3, 4, 5], sl, [100] if q else [100, 2000]), check_fair, variant="fast", describe="script sets x slice lengths: turn trace invariants + per-script results"),
            Space("sleep", lambda: gen_sleep(sl), check_sleep, variant="fast", describe="sleep durations x competitors x slices x ticks"),
            Space("scriptdone-terminate", lambda: gen_term(sl), check_term, variant="fast", describe="child length x delay before terminate x slices"),
            Space("waituntil", lambda: gen_waituntil(sl), check_waituntil, variant="fast", describe="waitUntil whose condition turns true at its n-th evaluation / when another script sets a flag, with and without a competitor, all slices"),
            Space("self-terminate", lambda: gen_selfterm(sl), check_selfterm, variant="fast", describe="a script terminates itself, then reaches a sleep: statements before x kind of scheduling point x (_thisScript / own handle) x slices")]
