"""C06 - str / literals round-trip: printed values and code compile back to equal values.

Exhaustive sweeps: strings over a 15-symbol alphabet + every single byte; numbers m*10^e with <=6 significant
digits; nested arrays; every expression tree of the C01 grammar sweep as a code body (str -> compile ->
instruction-for-instruction comparison); literal spellings against exact nearest-float32 arithmetic; the
pretty-printer (formatter) on the same code bodies.
"""
import itertools, struct
from fractions import Fraction
from ..engine import Space
from ..ref import expr as E
from . import c01

PROPERTY = "C06"
LEVEL = "exploration"
VARIANTS = ["fast"]
RULE = ("strings: all of length<=4 (quick) / 5 (thorough) over 15 symbols + all single bytes 1..255; numbers: +-m*10^e, m in 1..99 and "
        "selected 3-6 digit mantissas, e in -37..37 (thorough: every m<10^6 at e in {-3,0,3,30}); arrays to depth 3; code: all C01 "
        "k<=2 trees, all 3-node trees over 10 levels (thorough: over 20 classes, and 4-node over 10 levels) and statement samples; literal spellings: cross product of integer/fraction/exponent patterns and hex forms; "
        "a case = one value/text; non-trivial = all (distinct values by construction)")
ASSUMPTIONS = [
    "numbers are limited to <=6 significant digits and the normal float32 range, as the statement says; NUL is excluded from strings",
    "the pretty printer is exercised through sqf::parser::sqf::formatter (the class the CLI --pretty-print option calls)",
    "nearest single-precision value is computed exactly with rational arithmetic (ties to even)",
]
DEADLINE_S = {"quick": 420, "thorough": 1500}

SYMS = ["a", '"', "'", "\n", " ", ";", "{", "}", "/", "*", "\\", "#", "%", "\x01", "\xff"]
BATCH = 400


def batched(it, n=BATCH):
    buf = []
    for x in it:
        buf.append(x)
        if len(buf) >= n:
            yield buf
            buf = []
    if buf:
        yield buf


def sqf_str(s):
    return '"' + s.replace('"', '""') + '"'


# ------------------------------------------------------------------ values through the VM
def eval_batch(ws, texts):
    r = ws.call({"mode": "eval", "conf": {"ops": "full"}, "texts": texts}, variant="fast")
    if r["outcome"] != "ok":
        # isolate under fork
        out = []
        for t in texts:
            r1 = ws.call({"mode": "eval", "fork": True, "timeout_ms": 5000, "conf": {"ops": "full"}, "texts": [t]}, variant="fast")
            out.append(r1["result"]["items"][0] if r1["outcome"] == "ok" else {"crash": r1.get("kind", r1["outcome"]), "log": []})
        return out
    return r["result"]["items"]


def diag(it):
    return [m["msg"].split("[DIAG_LOG] ", 1)[1] for m in it["log"] if m["code"] == 60019]


def gen_strings(maxlen):
    def g():
        def strs():
            for b in range(1, 256):
                yield chr(b)
            for n in range(0, maxlen + 1):
                for t in itertools.product(SYMS, repeat=n):
                    yield "".join(t)
        return batched(strs())
    return g


def check_strings(ws, batch):
    texts = ["_s = %s; diag_log str [(call compile str _s) isEqualTo _s, count _s, (call compile str [_s]) isEqualTo [_s]]" % sqf_str(s) for s in batch]
    items = eval_batch(ws, texts)
    viols = []
    for s, it in zip(batch, items):
        got = diag(it)
        want = "[true,%d,true]" % len(s)
        if got != [want]:
            cls = "byte>=0x80" if any(ord(c) >= 0x80 for c in s) else ("ctrl" if any(ord(c) < 0x20 and c != "\n" for c in s) else "".join(sorted(set(c for c in s if not c.isalnum()))) or "plain")
            viols.append(("C06|string|%s" % cls.replace("\n", "\\n"), "string %r: str/compile round trip or literal length wrong: got %r want %r (%s)" % (
                s, got, want, it.get("crash") or [m["msg"][:80] for m in it["log"] if m["lvl"] <= 1][:1]), None, [s]))
    return viols, {"n": len(batch), "nontrivial": len(batch)}


MANT_EXTRA = [100, 101, 123, 999, 1000, 1001, 1234, 9999, 12345, 99999, 100001, 123456, 999999, 500001, 654321]


def gen_numbers(full):
    def g():
        def nums():
            yield "0"
            yield "-0"
            ms = list(range(1, 100)) + MANT_EXTRA
            for m in ms:
                for e in range(-37 - len(str(m)) + 1, 38 - len(str(m)) + 1):
                    yield "%de%d" % (m, e)
                    yield "-%de%d" % (m, e)
            if full:
                for e in (-3, 0, 3, 30):
                    for m in range(1, 1000000):
                        yield "%de%d" % (m, e)
        return batched(nums(), 1000)
    return g


def check_numbers(ws, batch):
    texts = ["_v = %s; diag_log str [(call compile str _v) isEqualTo _v, (call compile str [_v, [_v]]) isEqualTo [_v, [_v]]]" % n for n in batch]
    items = eval_batch(ws, texts)
    viols = []
    for n, it in zip(batch, items):
        if diag(it) != ["[true,true]"]:
            digits = len(n.lstrip("-").split("e")[0])
            viols.append(("C06|number|digits=%d" % digits, "number %s does not survive str/compile: %r" % (n, diag(it) or it.get("crash")), None, [n]))
    return viols, {"n": len(batch), "nontrivial": len(batch)}


LEAVES = ["1", "-2.5", "true", '"a""b"', '"x\ny"', "{1 + 2}", "false", "1e-5"]


def gen_arrays():
    def arrs():
        a1 = ["[" + ",".join(c) + "]" for w in range(0, 4) for c in itertools.product(LEAVES, repeat=w)]
        for a in a1:
            yield a
        s1 = a1[::37][:10]
        a2 = ["[" + ",".join(c) + "]" for w in range(1, 3) for c in itertools.product(LEAVES[:4] + s1, repeat=w)]
        for a in a2:
            yield a
        s2 = a2[::17][:8]
        for w in range(1, 3):
            for c in itertools.product(LEAVES[:3] + s2, repeat=w):
                yield "[" + ",".join(c) + "]"
    return batched(arrs())


def check_arrays(ws, batch):
    texts = ["_v = %s; diag_log str [(call compile str _v) isEqualTo _v]" % a for a in batch]
    items = eval_batch(ws, texts)
    viols = []
    for a, it in zip(batch, items):
        if diag(it) != ["[true]"]:
            viols.append(("C06|array|depth=%d" % max_depth(a), "array %s does not survive str/compile: %r" % (a[:100], diag(it) or it.get("crash")), None, [a]))
    return viols, {"n": len(batch), "nontrivial": len(batch)}


def max_depth(a):
    d = m = 0
    for c in a:
        if c == "[":
            d += 1
            m = max(m, d)
        elif c == "]":
            d -= 1
    return m


# ------------------------------------------------------------------ code
STATEMENT_SAMPLES = [
    'a = 1; private _b = -2; {x} forEach [1,[2]]', 'x = {y = {z}}; [{1},{2; 3}] select 0', 'hint "a""b"; hint \'c\'; _q = "it\'s"',
    'if (a) then {b} else {c}', 'private _a = [1, [2, {3}]] select 1', '_a = -1; _b = - _a; _c = -(1 + 2); _d = 1 - -1',
    'a = !true; b = !(c && d) || e', 'for "_i" from 1 to 2 step 1 do {a}', 'a = 1e10; b = 0.5; c = -0.25',
    'switch (a) do { case 1: {b}; default {c} }', 'a = []; b = [[]]; c = {}', 'a = b select c select d; e = f select (g select h)',
    'a = (b + c) * d; e = b + c * d; f = (b * c) + d; g = b - (c - d); h = (b - c) - d',
    'a = (b - (c - d)) - e; f = (b / (c * d)) + e; g = (b && (c && d)) || e; h = b - ((c - d) - e); i = ((b - c) - d) - e; j = (b - (c + d)) * e',
]


def gen_code(deep=False):
    def g():
        for b in c01.gen_operands_alone():
            yield ["tree", b]
        for b in c01.gen_k2_classes():
            yield ["tree", b]
        # 3 binary nodes: a printer that decides parentheses from (own level, side, what the parent was) needs a
        # grandparent to go wrong, e.g. (a - (b - c)) - d
        for b in c01.gen_k3_levels(("B",), 3):
            yield ["tree", b]
        if deep:
            for b in c01.gen_k3_levels(("B", "BU"), 3):
                yield ["tree", b]
            for b in c01.gen_k3_levels(("B",), 4):
                yield ["tree", b]
        yield ["text", STATEMENT_SAMPLES]
    return g


def needs_parens(t):
    return "(" in E.render(t, "min", " ") if t[0] != "code" and not has_code(t) else "(" in E.render(t, "min", " ").replace("( ", "(")


def has_code(t):
    import json
    return '"code"' in json.dumps(t)


def check_code(ws, case, what="code"):
    kind, batch = case
    if kind == "tree":
        texts = [E.render(t, "min", " ") for t in batch]
    else:
        texts = list(batch)
    r = ws.call({"mode": "roundtrip", "what": what, "conf": {"synth": True}, "texts": texts}, variant="fast")
    if r["outcome"] != "ok":
        viols = []
        for i, t in enumerate(texts):
            r1 = ws.call({"mode": "roundtrip", "fork": True, "timeout_ms": 5000, "what": what, "conf": {"synth": True}, "texts": [t]}, variant="fast")
            if r1["outcome"] != "ok":
                viols.append(("C06|%s|crash" % what, "%s round trip of %r crashed: %s" % (what, t, r1.get("kind")), None, [kind, [batch[i]]]))
        return viols, {"n": len(texts)}
    viols = []
    for i, (t, it) in enumerate(zip(texts, r["result"]["items"])):
        if not it["ok"]:
            continue   # not valid input (C01's business)
        feat = features_of(batch[i], kind, t)
        if what == "code":
            want = [["CODE", it["a1"]]]
            if not it.get("ok2"):
                viols.append(("C06|code|str-does-not-compile|%s" % feat, "str of code %r is %r which does not compile" % (t, it.get("str")), None, [kind, [batch[i]]]))
            elif it["a2"] != want:
                viols.append(("C06|code|instructions-differ|%s" % feat, "code %r prints as %r which compiles to %s, original %s" % (t, it["str"], it["a2"], it["a1"]), None, [kind, [batch[i]]]))
            elif not it.get("value_equal"):
                viols.append(("C06|code|value-not-equal|%s" % feat, "code %r: recompiled str %r is not isEqualTo the original" % (t, it["str"]), None, [kind, [batch[i]]]))
        else:
            if not it.get("ok2"):
                viols.append(("C06|pretty|output-does-not-compile|%s" % feat, "pretty print of %r is %r which does not compile" % (t, it.get("str")), None, [kind, [batch[i]]]))
            elif it["a2"] != it["a1"]:
                viols.append(("C06|pretty|instructions-differ|%s" % feat, "pretty print of %r is %r which compiles to %s, original %s" % (t, it["str"], it["a2"], it["a1"]), None, [kind, [batch[i]]]))
    return viols, {"n": len(texts), "nontrivial": len(texts)}


def features_of(item, kind, text):
    if kind == "text":
        return "parenthesised" if "(" in text else "statements"
    f = []
    if "(" in text:
        f.append("needs-parentheses")
    fs = c01.features(item)
    if any(x.startswith("un:") for x in fs):
        f.append("unary")
    if any(x.startswith("nul:") for x in fs):
        f.append("nular")
    return "+".join(f) or "plain"


def check_pretty(ws, case):
    return check_code(ws, case, "pretty")


# ------------------------------------------------------------------ literal spellings
def f32_nearest(fr):
    """Nearest float32 (ties to even) of a non-negative Fraction, as Python float; None if it overflows."""
    if fr == 0:
        return 0.0
    d = float(fr)
    try:
        c = struct.unpack("f", struct.pack("f", d))[0]
    except OverflowError:
        return None
    bits = struct.unpack("I", struct.pack("f", c))[0]
    cands = []
    for b in (bits - 1, bits, bits + 1):
        if 0 <= b < 0x7f800000:
            cands.append(b)
    best = None
    for b in cands:
        v = struct.unpack("f", struct.pack("I", b))[0]
        dist = abs(Fraction(v) - fr)
        key = (dist, b & 1)
        if best is None or key < best[0]:
            best = (key, v)
    if fr > Fraction(struct.unpack("f", struct.pack("I", 0x7f7fffff))[0]) * (1 + Fraction(1, 2 ** 25)):
        return None
    return best[1]


INTS = ["", "0", "1", "9", "12", "123", "1234567", "16777217", "99999999", "007"]
FRACS = ["", ".0", ".5", ".25", ".1", ".123456", ".00000001", ".99999999", ".3"]
EXPS = ["", "e0", "e1", "e-1", "e+2", "e10", "e-10", "e30", "e-30", "E5", "e07"]


def gen_literals():
    def lits():
        for i, f, e in itertools.product(INTS, FRACS, EXPS):
            if i == "" and f == "":
                continue
            yield i + f + e
        for p in ("0x", "$"):
            for n in range(0, 256):
                yield p + "%x" % n
                yield p + "%X" % n
            for h in ("100", "FFF", "1000", "FFFF", "12345", "ABCDEF", "1000000", "FFFFFFF", "10000000", "7FFFFFFF", "FFFFFFFF", "80000001", "deadBEEF"):
                yield p + h
    return batched(lits())


def value_of_literal(l):
    if l[0] == "$":
        return Fraction(int(l[1:], 16))
    if l[:2].lower() == "0x":
        return Fraction(int(l[2:], 16))
    m = l.lower().split("e")
    mant = m[0]
    ex = int(m[1]) if len(m) > 1 else 0
    ip, _, fp = mant.partition(".")
    num = Fraction(int((ip or "0") + fp), 10 ** len(fp))
    return num * Fraction(10) ** ex


def check_literals(ws, batch):
    r = ws.call({"mode": "roundtrip", "what": "exact", "conf": {}, "texts": batch}, variant="fast")
    if r["outcome"] != "ok":
        return [("C06|literal|crash", "literal batch crashed: %r" % r.get("kind"), None, batch[:5])], {"n": len(batch)}
    viols = []
    for l, it in zip(batch, r["result"]["items"]):
        kind = "hex" if l[0] == "$" or l[:2].lower() == "0x" else ("leading-dot" if l[0] == "." else ("exponent" if "e" in l.lower() else "decimal"))
        want = f32_nearest(value_of_literal(l))
        if want is None:
            continue
        if not it["ok"] or len(it["a1"]) != 1 or not it["a1"][0].startswith("PUSH "):
            viols.append(("C06|literal|%s|rejected" % kind, "literal %r is not compiled to a single PUSH: %r" % (l, it.get("a1") or it.get("log", [{}])[0].get("msg")), None, [l]))
            continue
        got = float(it["a1"][0][5:])
        if struct.pack("f", got) != struct.pack("f", want):
            viols.append(("C06|literal|%s|wrong-value" % kind, "literal %r evaluates to %r, nearest float32 is %r" % (l, got, want), None, [l]))
    return viols, {"n": len(batch), "nontrivial": len(batch)}


def spaces(tier):
    q = tier == "quick"
    return [
        Space("strings", gen_strings(4 if q else 5), check_strings, variant="fast", describe="every single byte and all strings up to length %d over 15 symbols" % (4 if q else 5)),
        Space("numbers", gen_numbers(not q), check_numbers, variant="fast", describe="+-m*10^e, <=6 significant digits" + ("" if q else ", plus every m<10^6 at 4 exponents")),
        Space("arrays", gen_arrays, check_arrays, variant="fast", describe="nested arrays to depth 3 over 8 leaf values incl. code and strings with quotes/newlines"),
        Space("code", gen_code(not q), check_code, variant="fast", describe="every C01 k<=2 tree, all 3-node trees over the 10 levels" + ("" if q else ", all 3-node trees over 20 classes, all 4-node trees over 10 levels") + ", operand forms, statement samples as code body: str -> compile, instruction-for-instruction"),
        Space("literals", gen_literals, check_literals, variant="fast", describe="decimal / leading-dot / exponent spellings (cross product of patterns) and $/0x hex forms vs exact nearest float32"),
        Space("pretty", gen_code(not q), check_pretty, variant="fast", describe="formatter output of the same code bodies compiles to the same instruction sequence"),
    ]
