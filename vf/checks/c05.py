"""C05 - operand stack is partitioned per scope; a scope yields exactly one value.

The C02 program space is re-run with every value-yielding construct evaluated *inside a pending expression*
(operands of the enclosing array already on the stack), plus blocks ending in every statement kind, with the
instruction-boundary monitor of the driver enabled (hook SQFVM_VERIF_EVENT): at every instruction boundary the
operands below each live frame's base must be unchanged, frames that disappear must leave at most one value,
bases are monotone. The value of the enclosing expression is compared with the reference interpreter.
Scheduled variants run pairs of scripts under slice lengths 1..7 so context switches fall on every boundary.
"""
import itertools
from ..engine import Space
from ..ref import progs, sqf_interp as I
from . import c02

PROPERTY = "C05"
LEVEL = "model_checking"
VARIANTS = ["fast"]
RULE = ("states = instruction boundaries visited by the monitor, transitions = instructions executed, over all template "
        "chains (depth 2 quick / 3 thorough for the frame-interacting subset) in 2 pending-expression contexts, block-ending "
        "variants, loop accumulation ladders and scheduled pairs under slice lengths 1..7; distinct by (chain, context)")
ASSUMPTIONS = c02.ASSUMPTIONS + [
    "monitor invariants: I1 frame bases monotone and within the stack; I2 operands below a live frame's base are pointer-identical "
    "to the snapshot taken when the frame appeared; I3 after frames disappear (completion, exitWith, breakOut, throw, error "
    "unwinding) the stack is the snapshot plus at most one value",
]
DEADLINE_S = {"quick": 480, "thorough": 1500}

INTERACT = ["call", "call-ends-with-hole", "exitwith-in-call", "exitwith-in-then", "while-exit-2nd", "for-exit", "foreach",
            "foreach-exit", "count", "apply", "switch-first", "switch-fallthrough", "try-throw", "try-throw-nested-call",
            "try-throw-in-loop", "throw-in-catch", "breakout", "breakout-value", "breakout-two-levels", "breakout-own-scope",
            "and-true", "if-true"]


def run(ws, chain, style, slice_=0):
    I.REC_STYLE = style
    try:
        prog = progs.build(chain)
        exp_trace, _, status = I.Interp().run_program(prog)
        text = I.render_program(prog)
    finally:
        I.REC_STYLE = "pre"
    assert status == "ok", (chain, status)
    r = c02.run_program(ws, text, "fast", monitor=True)
    return r, exp_trace, text


def judge(ws, chain, style):
    r, exp_trace, text = run(ws, chain, style)
    kind, trace, errors = c02.observe(r)
    info = {"states": 0, "transitions": 0}
    if kind != "ok":
        return kind.split(":")[0], kind, text, info
    mon = r["result"]["monitor"]
    info = {"states": mon["states"], "transitions": r["result"]["steps"][2]["instr"], "max_height": mon["max_height"]}
    if mon["violations"]:
        v = mon["violations"][0]
        return "monitor:" + v["kind"], "%s (%s) at instruction %d" % (v["kind"], v["detail"], v["instr_no"]), text, info
    stack_err = [e for e in errors if "Stack" in e or "stack" in e]
    if stack_err:
        return "stack-error", stack_err[0][:160], text, info
    exp, got = I.norm(exp_trace), I.norm(trace)
    if got != exp:
        i = 0
        while i < len(got) and i < len(exp) and got[i] == exp[i]:
            i += 1
        return "enclosing-value", "at trace position %d: got %r expected %r" % (
            i, got[i] if i < len(got) else "<end>", exp[i] if i < len(exp) else "<end>"), text, info
    if errors and not any(n in progs.HNAMES for n in chain):      # the handled-error templates raise (and recover) errors on purpose
        return "error-log", errors[0][:160], text, info
    return None, "", text, info


_memo = {}


def blame(ws, chain, style, kind):
    n = len(chain)
    for ln in range(1, n):
        for st in range(0, n - ln + 1):
            sub = tuple(chain[st:st + ln])
            key = (sub, style)
            if key not in _memo:
                _memo[key] = judge(ws, list(sub), style)[0]
            if _memo[key] == kind:
                return list(sub)
    return chain


def check(ws, case):
    chain, style = case
    kind, what, text, info = judge(ws, chain, style)
    info = dict(info)
    info.update({"n": 1, "nontrivial": 1, "executions": 1})
    if kind is None:
        return [], info
    b = blame(ws, chain, style, kind)
    sig = "C05|%s|%s" % (">".join(b), kind)
    return [(sig, "%s [%s]: %s ; program: %s" % (">".join(chain), style, what, text.replace("\n", " ")[:500]), None, case)], info


def gen_chains(depth, names, styles=("post", "nested")):
    def g():
        for ch in progs.chains(depth, names):
            for st in styles:
                yield [ch, st]
    return g


def gen_handled():
    for e in progs.HNAMES:
        for st in ("post", "nested"):
            yield [[e], st]
            for t in progs.TNAMES:
                yield [[e, t], st]
                yield [[t, e], st]
            for e2 in progs.HNAMES:
                yield [[e, e2], st]


def gen_blockends():
    for b in progs.BNAMES:
        for st in ("post", "nested"):
            yield [[b], st]
            for t in progs.TNAMES:
                yield [[b, t], st]
                yield [[t, b], st]


# ---- loop accumulation: the maximum stack height must not depend on the iteration count ----
LOOPS = {
    "while": "_n = 0; while {_n < %d} do {_n = _n + 1; %s}",
    "for": "for \"_i\" from 1 to %d do {%s}",
    "foreach": "_arr = []; _arr resize %d; {%s} forEach _arr",
    "count": "_arr = []; _arr resize %d; {%s; true} count _arr",
    "apply": "_arr = []; _arr resize %d; _arr apply {%s; 1}",
    "select": "_arr = []; _arr resize %d; _arr select {%s; true}",
    "findif": "_arr = []; _arr resize %d; _arr findIf {%s; false}",
}
BODIES = {
    "expr": "1 + 1", "two-expr": "1; 2; 3", "call": "call {1; 2}", "if": "if (true) then {5} else {6}", "assign": "_q = [1,2]",
    "array": "[1, [2, 3], call {4}]", "exitwith-inner": "call {if (true) exitWith {1}; 2}",
    "try": "try {throw 1} catch {2}", "breakout": "call {scopeName \"z\"; call {5 breakOut \"z\"}}", "switch": "switch (1) do {case 1: {2}}",
    "nested-loop": "{_x} forEach [1,2,3]",
}


def gen_accum():
    for l in LOOPS:
        for b in BODIES:
            yield [l, b]


def check_accum(ws, case):
    l, b = case
    hs = []
    tr = 0
    st = 0
    for n in (3, 40):
        text = LOOPS[l] % (n, BODIES[b])
        r = c02.run_program(ws, text, "fast", monitor=True)
        kind, trace, errors = c02.observe(r)
        if kind != "ok":
            return [("C05|loop=%s|body=%s|%s" % (l, b, kind.split(":")[0]), "loop program failed: %s: %s" % (kind, text), None, case)], {"n": 1}
        mon = r["result"]["monitor"]
        if mon["violations"]:
            v = mon["violations"][0]
            return [("C05|loop=%s|body=%s|monitor:%s" % (l, b, v["kind"]), "%s in %s" % (v, text), None, case)], {"n": 1}
        if errors:
            return [("C05|loop=%s|body=%s|error-log" % (l, b), "%s in %s" % (errors[0][:120], text), None, case)], {"n": 1}
        hs.append(mon["max_height"])
        tr += r["result"]["steps"][2]["instr"]
        st += mon["states"]
    info = {"n": 1, "nontrivial": 1, "states": st, "transitions": tr, "executions": 2}
    if hs[0] != hs[1]:
        return [("C05|loop=%s|body=%s|accumulates" % (l, b), "max stack height %d with 3 iterations, %d with 40: %s" % (hs[0], hs[1], LOOPS[l] % (40, BODIES[b])), None, case)], info
    return [], info


# ---- scheduled: two scripts, slice lengths 1..7 ----
SCHED_TEMPLATES = ["call", "exitwith-in-call", "foreach-exit", "try-throw-nested-call", "breakout-value", "switch-fallthrough",
                   "count", "while-exit-2nd", "call-ends-assign", "breakout-two-levels"]


def gen_sched(slices):
    def g():
        for a, b in itertools.product(SCHED_TEMPLATES, repeat=2):
            for s in slices:
                yield [a, b, s]
    return g


def check_sched(ws, case):
    a, b, sl = case
    I.REC_STYLE = "post"
    try:
        texts, exps = [], []
        for nm in (a, b):
            prog = progs.build([nm])
            exp_trace, _, status = I.Interp().run_program(prog)
            texts.append(I.render_program(prog))
            exps.append(I.norm(exp_trace))
    finally:
        I.REC_STYLE = "pre"
    req = {"mode": "steps", "fork": True, "timeout_ms": 20000, "clock": {"tick_us": 1}, "monitor": True, "slice": sl,
           "steps": [{"op": "vm", "id": 0, "template": True, "max_runtime_ms": 300},
                     {"op": "sqf", "id": 0, "text": texts[0], "path": "s0.sqf", "suspendable": True},
                     {"op": "sqf", "id": 0, "text": texts[1], "path": "s1.sqf", "suspendable": True},
                     {"op": "exec", "id": 0, "action": "start"}]}
    r = ws.call(req, variant="fast", prepare=c02.PREP)
    if r["outcome"] != "ok":
        return [("C05|sched|%s+%s|%s" % (a, b, r.get("kind", r["outcome"])), "scheduled run failed: %r" % r.get("kind"), None, case)], {"n": 1}
    res = r["result"]
    mon = res["monitor"]
    info = {"n": 1, "nontrivial": 1, "states": mon["states"], "transitions": res["steps"][3]["instr"], "executions": 1}
    # known single-script failures are reported by the unscheduled spaces; here only what scheduling adds
    solo_bad = []
    for nm in (a, b):
        key = ((nm,), "post")
        if key not in _memo:
            _memo[key] = judge(ws, [nm], "post")[0]
        if _memo[key] is not None:
            solo_bad.append(nm)
    if solo_bad:
        return [], info
    if mon["violations"]:
        v = mon["violations"][0]
        return [("C05|sched|monitor:%s" % v["kind"], "%s+%s slice %d: %s" % (a, b, sl, v), None, case)], info
    per = {"s0.sqf": [], "s1.sqf": []}
    errs = []
    for m in res["log"]:
        if m["code"] == 60019 and m.get("path") in per:
            per[m["path"]].append(I.norm(I.parse_value(m["msg"].split("[DIAG_LOG] ", 1)[1])))
        elif m["lvl"] <= 1:
            errs.append(m["msg"])
    if per["s0.sqf"] != exps[0] or per["s1.sqf"] != exps[1]:
        return [("C05|sched|enclosing-value", "%s+%s slice %d: per-script trace differs from the reference (%r / %r)" % (
            a, b, sl, per["s0.sqf"][-2:], per["s1.sqf"][-2:]), None, case)], info
    if errs:
        return [("C05|sched|error-log", "%s+%s slice %d: %s" % (a, b, sl, errs[0][:140]), None, case)], info
    return [], info


def spaces(tier):
    sp = [
        Space("pending-depth2", gen_chains(2, progs.TNAMES), check, variant="fast",
              describe="all chains to depth 2, each value-yielding construct evaluated with pending operands below it (2 contexts), monitor on"),
        Space("block-endings", gen_blockends, check, variant="fast",
              describe="blocks ending in assignment / private assignment / nothing / nil inside and around every template"),
        Space("handled-errors", gen_handled, check, variant="fast",
              describe="runtime errors recovered by except__ with operands pending in the guarded block and in the frames between it and the failing one, alone and nested with every template"),
        Space("loop-accumulation", gen_accum, check_accum, variant="fast",
              describe="7 loop kinds x 11 body kinds, 3 vs 40 iterations: identical maximum stack height"),
        Space("scheduled-pairs", gen_sched([1, 2, 3, 5, 7] if tier == "quick" else [1, 2, 3, 4, 5, 6, 7, 11]), check_sched, variant="fast",
              describe="pairs of scripts scheduled round-robin with slice length s: monitor across context switches + per-script trace"),
    ]
    sp.append(Space("pending-depth3-interacting", gen_chains(3, INTERACT, ("post",)), check, variant="fast",
                    describe="depth-3 chains over the 22 frame-interacting templates"))
    if tier == "thorough":
        sp.append(Space("pending-depth3-all", gen_chains(3, progs.TNAMES, ("nested",)), check, variant="fast",
                        describe="all depth-3 chains over all templates, construct values taken with pending operands on both sides, monitor on"))
    return sp
