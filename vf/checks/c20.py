"""C20 - runs are deterministic and VM instances are isolated from each other.

A pool of short programs, one per piece of process-wide or per-VM state (number printing with and without toFixed,
__COUNTER__, macro definitions, first use of rarely used types, globals, config, objects/groups/markers, hashmap printing,
script handles), is run (a) twice in fresh VMs, (b) for every ordered pair (Q, P): P in a fresh VM after Q ran in another VM
of the same process (Q's VM destroyed or still alive), (c) P beside Q on two threads, all interleavings at instruction
boundaries up to a preemption bound (token-passing scheduler), plus a free-running ThreadSanitizer pass over pairs.
P's recorded log must be byte-identical in all settings.
"""
import itertools
from ..engine import Space

PROPERTY = "C20"
LEVEL = "model_checking"
VARIANTS = ["fast", "tsan"]
RULE = ("pool of 34 programs (4 of them for VMs with different operator registrations, 2 with different config trees loaded); (a) each twice; (b) all ordered pairs x {Q's VM destroyed, alive, both VMs created and configured before either runs}; (c) controlled two-thread exploration for Q in the "
        "state-touching subset x all P with <=1 (quick) / <=2 (thorough) preemptions at instruction boundaries; TSan free-running over a pair "
        "subset; states = scheduling points / VM runs, transitions = executions; non-trivial = pair with Q != P")
ASSUMPTIONS = [
    "time and random operators are excluded from the pool, as the statement says",
    "output = structured log records (level, text) of P's VM in order",
    "TSan: only reports with both stacks inside the repository's sources are judged",
]
DEADLINE_S = {"quick": 480, "thorough": 1500}

POOL = {
    "numbers": "diag_log str [1.5, 1/3, 1e10, 0.1 + 0.2, -0, 100000, 1234567]",
    "tofixed": "toFixed 2; diag_log str [1/3, 10]; diag_log (1/3 toFixed 4)",
    "tofixed-reset": "toFixed 3; toFixed -1; diag_log str [1/3]",
    "counter": "diag_log str [__COUNTER__, __COUNTER__, __COUNTER__]",
    "counter-reset": "__COUNTER_RESET__\ndiag_log str [__COUNTER__]",
    "define": "#define ISO_X 5\ndiag_log str [ISO_X]",
    "define-undefined": "#ifdef ISO_X\ndiag_log \"defined\"\n#else\ndiag_log \"undefined\"\n#endif",
    "types": 'diag_log str [typeName (text "a"), typeName createHashMap, typeName scriptNull, typeName configFile, typeName west, typeName (if true), typeName (for "_i")]',
    "types-equal": 'diag_log str [1 isEqualType 2, "a" isEqualType [], createHashMap isEqualType [], [1,"a",true] apply {typeName _x}]',
    "globals-set": "iso_g = 5; diag_log str [iso_g]",
    "globals-read": 'diag_log str [isNil "iso_g", isNil "iso_h"]',
    "ui-namespace": 'uiNamespace setVariable ["iso_u", 1]; diag_log str [uiNamespace getVariable "iso_u", allVariables uiNamespace]',
    "group": "private _g = createGroup west; diag_log str [_g, side _g]",
    "groups-many": "private _a = createGroup west; private _b = createGroup east; diag_log str [_a, _b, allGroups]",
    "marker": 'createMarker ["iso_m", [1,2,3]]; diag_log str [allMapMarkers, markerPos "iso_m"]',
    "hashmap": 'diag_log str (createHashMapFromArray [[1,2],["a",3],[true,4],[[1],5]])',
    "script-handle": "private _h = [] spawn { iso_s = 1 }; diag_log str [_h, scriptDone _h]",
    "error": 'diag_log "before"; 1 + "a"; diag_log "after"',
    "config-read": 'diag_log str [isClass (configFile >> "IsoCfg"), count configFile]',
    "loop": "private _s = 0; for \"_i\" from 1 to 20 do { _s = _s + _i }; diag_log str [_s]",
    "format": 'diag_log format ["%1 %2 %3", 1.25, "x", [1,2]]',
    "sort": "private _a = [3,1,2]; _a sort true; diag_log str [_a, [\"b\",\"a\"] call {_this sort true; _this}]",
}
# operator registrations differ between instances: the same word is an operator in one VM and a plain variable in another
POOL.update({
    "words-are-variables": 'allUnits = 3; vehicle = "left"; createMarker = [1]; diag_log str [allUnits, vehicle, createMarker]',
    "words-are-operators": 'diag_log str [count allUnits, vehicle objNull, allUnits isEqualTo []]; createMarker ["iso_w", [0,0,0]]; diag_log str [allMapMarkers]',
    "synth-words-are-variables": "vb5 = 1; vu = 2; vn = 3; diag_log str [vb5, vu, vn, vb5 + vu]",
    "synth-words-are-operators": "diag_log str [1 vb5 2, vu 3, vn]",
})
# numbers printed while PREPROCESSING (the preprocessor evaluates __EVAL through evaluate_expression, outside execute())
# enumeration order of a map keyed by objects / groups must not depend on where they happen to be allocated
POOL["hashmap-object-keys"] = ('private _m = createHashMap; { _m set [_x, _forEachIndex] } forEach ["Land_Test" createVehicle [0,0,0], "Land_Test" createVehicle [1,0,0], '
                               '"Land_Test" createVehicle [2,0,0], "Land_Test" createVehicle [3,0,0], createGroup west, createGroup east, createGroup civilian]; '
                               'diag_log str [keys _m, str _m, (keys _m) apply { _m get _x }]')
POOL["eval-macro"] = 'diag_log str [__EVAL(1/8), __EVAL(1/3), __EVAL(100000 * 3)]'
# config trees belong to the instance: the same class names at different positions (container ids) in two instances
CFG_A = 'class IsoCfg { v = 1; class Sub { w = 10; }; class Kid : Sub { k = 11; }; }; class Other { v = 2; };'
CFG_B = 'class Pad0 { class Pad1 { p = 0; }; }; class Other { v = 7; class Sub { w = 70; }; }; class IsoCfg { v = 3; class Sub { w = 30; x = 31; }; class Kid : Sub { k = 33; }; };'
CFG_LOOKUP = ('diag_log str [getNumber (configFile >> "IsoCfg" >> "v"), getNumber (configFile >> "IsoCfg" >> "Sub" >> "w"), getNumber (configFile >> "IsoCfg" >> "Kid" >> "w"), '
              'getNumber (configFile >> "IsoCfg" >> "Kid" >> "k"), getNumber (configFile >> "Other" >> "v"), isClass (configFile >> "Other" >> "Sub"), isClass (configFile >> "Pad0"), '
              'isNumber (configFile >> "IsoCfg" >> "Sub" >> "x"), count configFile, configName inheritsFrom (configFile >> "IsoCfg" >> "Kid")]')
POOL["config-lookup-a"] = CFG_LOOKUP
POOL["config-lookup-b"] = CFG_LOOKUP
POOL["configparse"] = ('private _c = configparse__ "class Other { v = 5; }; class IsoCfg { v = 6; class Sub { w = 60; }; };"; '
                       'diag_log str [getNumber (_c >> "IsoCfg" >> "v"), getNumber (_c >> "IsoCfg" >> "Sub" >> "w"), isClass (configFile >> "IsoCfg")]')
# diagnostics are part of the output: what one instance was warned about says nothing about another one
POOL["undefined-read"] = 'private _v = iso_undefined; private _w = _iso_undefined_local; for "_i" from 1 to 2 do { _v = ISO_Undefined }; diag_log str [isNil "_v", isNil "_w"]'
POOL["undefined-read-other"] = 'private _v = iso_undefined; diag_log str [isNil "_v"]; 1 + "a"'
# listings of the operator tables: the same operators, the same listing - whatever other instances registered before
POOL["command-listings"] = ('private _c = cmds__; private _i = cmdsimplemented__; private _v = cmdsvm__; diag_log str [count _c, _c select 600, _c select 1500, _c select 2500, '
                            'count _i, _i select 100, _i select 300, count _v, _v]')
POOL_CFG = {"config-lookup-a": CFG_A, "config-lookup-b": CFG_B}
OPSET = {"words-are-variables": "basic", "synth-words-are-operators": "synth"}    # default: full
NAMES = list(POOL)
STATEFUL = ["tofixed", "counter", "define", "types", "words-are-operators", "synth-words-are-operators", "config-lookup-a", "globals-set", "groups-many", "marker", "error", "configparse", "undefined-read"]


def run_vm_sequence(ws, seq, prepared=False):
    """seq: list of (program name, keep_alive) run one after another in fresh VMs of ONE process; returns per-VM logs.
    prepared: all VMs are created and their configs loaded first, then the programs run in order."""
    steps = []
    def create(i, name):
        o = OPSET.get(name, "full")
        steps.append({"op": "vm", "id": i, "ops": "full" if o == "synth" else o, "synth": o == "synth"})
        if name in POOL_CFG:
            steps.append({"op": "config", "id": i, "text": POOL_CFG[name]})
    if prepared:
        for i, (name, keep) in enumerate(seq):
            create(i, name)
    for i, (name, keep) in enumerate(seq):
        if not prepared:
            create(i, name)
        steps.append({"op": "sqf", "id": i, "text": POOL[name], "preprocess": True, "path": "p.sqf"})
        steps.append({"op": "exec", "id": i, "action": "start"})
        steps.append({"op": "exec", "id": i, "action": "abort"})
        if not keep:
            steps.append({"op": "destroy", "id": i})
    r = ws.call({"mode": "steps", "fork": True, "timeout_ms": 30000, "clock": {"tick_us": 0}, "steps": steps}, variant="fast")
    if r["outcome"] != "ok":
        return None, r
    logs = {}
    for m in r["result"]["log"]:
        logs.setdefault(m["vm"], []).append((m["lvl"], m["msg"]))
    return logs, r


_alone = {}


def alone(ws, name):
    if name not in _alone:
        logs, r = run_vm_sequence(ws, [(name, False)])
        _alone[name] = logs.get(0, []) if logs is not None else ("crash", r.get("kind"))
    return _alone[name]


def gen_pairs():
    for n in NAMES:
        yield ["twice", n, n]
    for q, p in itertools.product(NAMES, repeat=2):
        yield ["after-destroyed", q, p]
        yield ["after-alive", q, p]
        yield ["both-prepared", q, p]      # both instances exist (configs loaded) before either program runs


def check_pair(ws, case):
    mode, q, p = case
    base = alone(ws, p)
    info = {"n": 1, "nontrivial": 1 if q != p else 0, "states": 2, "transitions": 2, "executions": 1}
    if isinstance(base, tuple):
        return [("C20|alone|%s|crash" % p, "program %s alone: %r" % (p, base), None, case)], info
    if mode == "twice":
        logs, r = run_vm_sequence(ws, [(p, False)])
        again = logs.get(0, []) if logs is not None else None
        if again != base:
            return [("C20|nondeterministic|%s" % p, "program %s gives %r and then %r in a fresh process" % (p, base[:3], (again or [])[:3]), None, case)], info
        return [], info
    logs, r = run_vm_sequence(ws, [(q, mode != "after-destroyed"), (p, False)], prepared=(mode == "both-prepared"))
    if logs is None:
        return [("C20|%s|q=%s|crash" % (mode, q), "Q=%s then P=%s: %s" % (q, p, r.get("kind", r["outcome"])), None, case)], info
    got = logs.get(1, [])
    if got != base:
        return [("C20|sequential|state-of=%s|leaks-into-later-instance" % q, "P=%s after Q=%s (%s): %r, alone: %r" % (p, q, mode, got[:3], base[:3]), None, case)], info
    return [], info


def gen_conc(qs):
    def g():
        for q in qs:
            for p in NAMES:
                yield [q, p]
    return g


def check_conc(ws, case, bound=1):
    q, p = case
    r = ws.call({"mode": "mt", "fork": True, "timeout_ms": 240000, "what": "isolation", "p": POOL[p], "q": POOL[q], "p_ops": OPSET.get(p, "full"), "q_ops": OPSET.get(q, "full"), "p_cfg": POOL_CFG.get(p, ""), "q_cfg": POOL_CFG.get(q, ""), "bound": bound, "max_executions": 3000}, variant="fast")
    if r["outcome"] != "ok":
        return [("C20|concurrent|q=%s|%s" % (q, r.get("kind", r["outcome"])), "P=%s beside Q=%s: %s" % (p, q, r.get("kind", r["outcome"])), None, case)], {"n": 1}
    res = r["result"]
    info = {"n": 1, "nontrivial": 1 if p != q else 0, "states": res["points"], "transitions": res["executions"], "executions": res["executions"], "capped": 1 if res["capped"] else 0}
    if res["violations"]:
        v = res["violations"][0]
        return [("C20|concurrent|state-of=%s|%s" % (q, v["kind"]), "P=%s beside Q=%s (%d executions, bound %d): %s" % (p, q, res["executions"], bound, v["what"][:400]), None, case)], info
    return [], info


def check_conc2(ws, case):
    return check_conc(ws, case, 2)


def gen_tsan():
    for q in ["tofixed", "counter", "types", "groups-many", "hashmap", "format", "words-are-operators", "synth-words-are-operators", "config-lookup-a"]:
        for p in ["numbers", "counter", "types", "group", "hashmap", "hashmap-object-keys", "define", "eval-macro", "words-are-variables", "synth-words-are-variables", "config-lookup-b", "config-read"]:
            yield [q, p]


def check_tsan(ws, case):
    q, p = case
    from .c19 import parse_tsan
    r = ws.call({"mode": "mt", "fork": True, "timeout_ms": 120000, "what": "isolation-free", "p": POOL[p], "q": POOL[q], "p_ops": OPSET.get(p, "full"), "q_ops": OPSET.get(q, "full"), "p_cfg": POOL_CFG.get(p, ""), "q_cfg": POOL_CFG.get(q, ""), "repeat": 5}, variant="tsan")
    info = {"n": 1, "nontrivial": 1, "states": 5, "transitions": 5, "executions": 5}
    err = r.get("stderr", "")
    if r["outcome"] != "ok" and "ThreadSanitizer" not in err:
        return [("C20|tsan|%s|%s" % (q, r.get("kind", r["outcome"])), "free-running P=%s Q=%s: %s" % (p, q, r.get("kind", r["outcome"])), None, case)], info
    viols = []
    for key, what in parse_tsan(err)[:3]:
        viols.append(("C20|tsan|data-race-between-instances|%s" % key, "P=%s beside Q=%s: %s" % (p, q, what), None, case))
    return viols, info


def spaces(tier):
    q = tier == "quick"
    return [Space("sequential-pairs", gen_pairs, check_pair, variant="fast", describe="each program twice; all ordered pairs, Q's VM destroyed or alive"),
            Space("concurrent-controlled", gen_conc(STATEFUL[:6] if q else STATEFUL), check_conc if q else check_conc2, variant="fast", describe="P beside Q on two threads, preemption-bounded interleavings at instruction boundaries"),
            Space("tsan-free-running", gen_tsan, check_tsan, variant="tsan", describe="pairs free-running on two threads under ThreadSanitizer")]
