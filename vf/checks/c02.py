"""C02 - control structures execute the statements SQF semantics prescribe.

Every nesting chain of construct templates (vf/ref/progs.py) up to the tier's depth is rendered to SQF,
executed by the real VM (forked child, deterministic instruction budget through the virtual clock) and its
diag_log trace / recorded construct values are compared with the reference interpreter (vf/ref/sqf_interp.py).
"""
from ..engine import Space
from ..ref import progs, sqf_interp as I

PROPERTY = "C02"
LEVEL = "exploration"
VARIANTS = ["fast"]
RULE = ("all nesting chains of the %d construct templates (every construct placed in the executed block position "
        "of every other) up to depth 2 (quick) / 3 (thorough); one case = one program; distinct by chain; "
        "non-trivial = reference trace has >= 3 entries" % len(progs.TNAMES))
ASSUMPTIONS = [
    "excluded by construction (semantics not fixed by the statement): assigning the for variable in the body, resizing the "
    "iterated array, exitWith directly in count/select/apply/findIf code, scopeName twice in one scope, breakOut \"\", waitUntil",
    "values of loop constructs themselves are not judged (only call, if/else, switch, try/catch, exitWith, breakOut-with-value, "
    "count/select/apply/findIf results)",
    "reference semantics: vf/ref/sqf_interp.py (exitWith leaves the innermost block, ending a loop whose body it is)",
]
DEADLINE_S = {"quick": 420, "thorough": 1500}

PREP = {"mode": "prepare", "conf": {"ops": "full"}}
BUDGET_MS = 300          # virtual: 1 us per clock query => ~300k instructions


def run_program(ws, text, variant="fast", monitor=False, extra=None):
    req = {"mode": "steps", "fork": True, "timeout_ms": 20000, "clock": {"tick_us": 1},
           "steps": [{"op": "vm", "id": 0, "template": True, "max_runtime_ms": BUDGET_MS},
                     {"op": "sqf", "id": 0, "text": text, "path": "main.sqf"},
                     {"op": "exec", "id": 0, "action": "start"}]}
    if monitor:
        req["monitor"] = True
    if extra:
        req.update(extra)
    return ws.call(req, variant=variant, prepare=PREP)


def observe(r):
    """-> (kind, trace, errors) kind in ok|crash|hang|parse"""
    if r["outcome"] != "ok":
        return r["outcome"] + ":" + str(r.get("kind", "")), [], []
    res = r["result"]
    if not res["steps"][1].get("ok"):
        return "parse", [], [m["msg"] for m in res["log"]]
    trace = []
    errors = []
    hang = False
    for m in res["log"]:
        if m["code"] == 60019:
            txt = m["msg"].split("[DIAG_LOG] ", 1)[1]
            try:
                trace.append(I.parse_value(txt))
            except Exception:
                trace.append(("unparsed", txt))
        elif m["code"] == 60002 or "Maximum runtime" in m["msg"] or "MaximumRuntime" in m["msg"]:
            hang = True
        elif m["lvl"] <= 1:
            errors.append(m["msg"])
    return ("hang" if hang else "ok"), trace, errors


def judge(ws, chain, variant="fast"):
    prog = progs.build(chain)
    exp_trace, _, status = I.Interp().run_program(prog)
    assert status == "ok", (chain, status)
    text = I.render_program(prog)
    r = run_program(ws, text, variant)
    kind, trace, errors = observe(r)
    exp = I.norm(exp_trace)
    got = I.norm(trace)
    if kind != "ok":
        return kind.split(":")[0] if kind.startswith("crash") else kind, "%s" % kind, text, len(exp)
    if got != exp:
        # first divergence
        i = 0
        while i < len(got) and i < len(exp) and got[i] == exp[i]:
            i += 1
        g = got[i] if i < len(got) else "<end>"
        e = exp[i] if i < len(exp) else "<end>"
        k = "value" if (isinstance(g, list) and isinstance(e, list) and len(g) == 2 and len(e) == 2 and g[1] == e[1] and isinstance(e[0], list)) else "trace"
        return k, "at trace position %d: got %r expected %r%s" % (i, g, e, (" errors=%r" % errors[:1]) if errors else ""), text, len(exp)
    if errors:
        return "error-log", "error diagnostics on an error-free program: %r" % errors[:2], text, len(exp)
    if r["result"]["steps"][2]["r"] != -1:
        return "result", "execute returned %r" % r["result"]["steps"][2]["r"], text, len(exp)
    return None, "", text, len(exp)


_memo = {}


def judge_memo(ws, chain):
    k = tuple(chain)
    if k not in _memo:
        _memo[k] = judge(ws, chain)
    return _memo[k]


def blame(ws, chain, kind):
    """Smallest contiguous sub-chain that fails with the same kind."""
    n = len(chain)
    for ln in range(1, n):
        for st in range(0, n - ln + 1):
            sub = chain[st:st + ln]
            k2 = judge_memo(ws, sub)[0]
            if k2 == kind:
                return sub
    return chain


def check(ws, chain):
    kind, what, text, tlen = judge(ws, chain)
    info = {"n": 1, "nontrivial": 1 if tlen >= 3 else 0, "trace_entries": tlen}
    if kind is None:
        return [], info
    b = blame(ws, chain, kind)
    sig = "C02|%s|%s" % (">".join(b), kind)
    return [(sig, "%s: %s ; program: %s" % (">".join(chain), what, text.replace("\n", " ")[:600]), None, chain)], info


def gen(depth):
    return lambda: progs.chains(depth)


def spaces(tier):
    if tier == "quick":
        from . import c05 as _c05
        def gen3i():
            for ch in progs.chains(3, _c05.INTERACT):
                if len(ch) == 3:
                    yield ch
        return [Space("chains-depth2", gen(2), check, variant="fast",
                      describe="every template alone and every template inside every other"),
                Space("chains-depth3-interacting", gen3i, check, variant="fast",
                      describe="all depth-3 chains over the frame-interacting templates")]
    from . import c05
    def gen4():
        for ch in progs.chains(4, c05.INTERACT):
            if len(ch) == 4:
                yield ch
    return [Space("chains-depth3", gen(3), check, variant="fast",
                  describe="all nesting chains up to depth 3 over all %d templates" % len(progs.TNAMES)),
            Space("chains-depth4-interacting", gen4, check, variant="fast",
                  describe="all depth-4 chains over the %d frame-interacting templates (early exits, handlers, loops that restart their frame)" % len(c05.INTERACT))]
