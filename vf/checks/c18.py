"""C18 - C API contract: truthful return codes, complete logging, reusable instances.

Every history of API calls up to a depth over an alphabet of call kinds (succeeding, failing in each phase, erroring in the
middle / as last action, spawning late loggers, non-terminating or sleeping past a runtime limit, malformed input, every type
character, invalid handles) on one instance, plus interleavings on two instances, is executed against the real exported
functions in a forked ASan child; each call is judged on its own (code, status, callback user/call data, persisted
globals/config) whatever preceded it.
"""
import itertools
from ..engine import Space

PROPERTY = "C18"
LEVEL = "model_checking"
VARIANTS = ["asan"]
RULE = ("all histories of <=2 (quick) / <=3 (thorough) calls over 37 call kinds after create(full, 50 ms limit) on one instance, with a status "
        "probe after every call; two-instance interleavings of 2 calls each; creation variants (full/basic/empty); invalid handles (NULL, foreign "
        "memory, destroyed); states = (globals set, config loaded, instance age) contexts reached, transitions = API calls; non-trivial = history "
        "contains a failing or limit-hitting call before another call")
ASSUMPTIONS = [
    "virtual clock: every clock query advances time by 20 us, so a 50 ms limit is a deterministic instruction budget",
    "a run that is aborted by the runtime limit did not execute to completion and must not return 0",
    "for an unknown type the text is valid (the order in which type and text are validated is not fixed by the statement)",
]
DEADLINE_S = {"quick": 480, "thorough": 1500}

# kind -> (type, text, expected code, expected diag_log payloads (None = do not care))
CALLS = {
    "set-global": ("s", "GV = 5", 0, []),
    "read-global": ("s", "diag_log str [GV]", 0, None),
    "log": ("s", 'diag_log "hello"', 0, ["hello"]),
    "value": ("s", "1 + 1", 0, []),
    "error-middle": ("s", 'diag_log "m1"; 1 + "a"; diag_log "m2"', -6, ["m1"]),
    "error-last": ("s", "{5} count [1]", -6, []),
    "parse-error": ("s", "x = ;", -3, []),
    "pp-error": ("s", '#include "nope.hpp"', -2, []),
    "late-logger": ("s", '[] spawn { sleep 0.002; diag_log "late" }; diag_log "early"', 0, ["early", "late"]),
    "nonterminating": ("s", "[] spawn { while {true} do { q = 1 } }", -6, []),
    "sleeper-past-limit": ("s", '[] spawn { sleep 30; diag_log "never" }; diag_log "s1"', -6, ["s1"]),
    "empty": ("s", "", 0, []),
    "high-bytes": ("s", 'diag_log "\xff\xfe"', 0, ["\xff\xfe"]),
    "read-config": ("s", 'diag_log str [getNumber (configFile >> "ApiCfg" >> "v")]', 0, None),
    "pp-only": ("p", "#define A 7\nA", 0, []),
    # __EVAL runs code while PREPROCESSING, outside any run: it is a run of its own (own time budget, no stale stop request)
    "eval-macro": ("s", "diag_log str [__EVAL(1 + 2), __EVAL(\"a\" + \"b\")]", 0, ['[3,"ab"]']),
    "pp-eval-macro": ("p", "A __EVAL(1 + 2) B", 0, []),
    # macro definitions belong to the call that makes them: GV / ApiCfg below are plain names in every other call
    "define-macro": ("s", '#define GV 9\n#define ApiCfg Nope\ndiag_log "dm"', 0, ["dm"]),
    "pp-only-define": ("p", "#define GV 9\n#define diag_log hint\nGV", 0, []),
    # code run by __EVAL that does not come to an end inside the evaluation (a script it spawns, the rest of an expression
    # that failed half-way) must not wait for - and run under the call data of - a later call: GV stays unset
    "pp-eval-spawn": ("p", "__EVAL([] spawn { GV = 5 }; 1)", 0, []),
    "pp-eval-error-midway": ("p", 'A __EVAL(1 + "x"; GV = 5; 7) B', 0, []),
    "eval-error-midway": ("s", '__EVAL(1 + "x"; GV = 5; 7) diag_log "eem"', 0, ["eem"]),
    "cfg-eval-spawn": ("cfg", "class ES { v = __EVAL([] spawn { GV = 5 }; 1); };", 0, []),
    "parse-error-eval-spawn": ("s", "x = ; __EVAL([] spawn { GV = 5 }; 1)", -3, []),
    # an __EVAL that never comes to an end by itself: the runtime limit ends it (the evaluation is a run of its own)
    "pp-eval-endless-loop": ("p", 'A __EVAL(for "_i" from 0 to 1 step 0 do {}) B', 0, []),
    "pp-eval-endless-wait": ("p", "A __EVAL(waitUntil {false}) B", 0, []),
    "eval-endless-wait": ("s", '__EVAL(waitUntil {false}) diag_log "eew"', 0, ["eew"]),
    # the log callback asks the SAME instance for another call while this one executes: refused with -4 (status says
    # running), and the call in progress goes on undisturbed - its later diagnostics still carry ITS call data
    "reenter-call": ("s", 'diag_log "r1"; diag_log "REENTER:call"; diag_log "r2"; 1 + "a"; diag_log "r3"', -6, ["r1", "REENTER:call", "r2"]),
    "unknown-type": ("x", "1", -5, []),
    "assembly-bad": ("a", "this is not assembly", -3, []),
    "assembly-bad-char": ("a", "push 1 endStatement; ? $", -3, []),
    "assembly-unknown-operator": ("a", "push 1 push 2 callBinary nosuchop", -3, []),
    "assembly-ok": ("a", "push 1 push 2 callBinary + callUnary str callUnary diag_log", 0, ["3"]),
    "transpile": ("1", "a = 1", 0, []),
    "load-config": ("cfg", "class ApiCfg { v = 3; };", 0, []),
    "load-config-bad": ("cfg", "class { ", -3, []),
    "load-config-pp-bad": ("cfg", '#include "nope.hpp"', -2, []),
}
KINDS = list(CALLS)
EVAL_FAILS = ("pp-eval-error-midway", "eval-error-midway", "pp-eval-endless-loop", "pp-eval-endless-wait", "eval-endless-wait")   # the failure inside __EVAL is reported (fatal stack trace); whether the call then counts as failed is not fixed


def gen_hist(depth):
    def g():
        for d in range(1, depth + 1):
            for seq in itertools.product(KINDS, repeat=d):
                yield ["one", list(seq)]
    return g


def gen_misc():
    for kind in ("full", "basic", "empty"):
        for c in ("value", "log", "parse-error", "unknown-type", "pp-only"):
            yield ["create", [kind, c]]
    for hk in ("null", "foreign", "destroyed"):
        for c in ("call", "status", "load_config", "destroy"):
            yield ["invalid", [hk, c]]
    for a, b in itertools.product(["set-global", "log", "error-middle", "load-config", "late-logger", "assembly-bad", "assembly-ok", "parse-error", "pp-error", "load-config-bad"], repeat=2):
        yield ["two", [a, b]]
    for gap_ms in (0, 30, 60, 5000):
        for c in ("value", "late-logger", "log", "eval-macro", "pp-eval-macro", "load-config"):
            yield ["aged", [gap_ms, c]]


def step_for(kind, h, cd):
    ty, text, code, logs = CALLS[kind]
    if ty == "cfg":
        return {"op": "load_config", "h": h, "text": text}
    return {"op": "call", "h": h, "type": ty, "text": text, "cd": cd}


def judge_call(kind, step_res, status_res, ud, cd, gv_set, cfg_loaded, tag, case, context):
    ty, text, code, logs = CALLS[kind]
    v = []
    if step_res["code"] != code:
        return [("C18|%s|wrong-code|%s" % (kind, context), "%s: call %s returned %d, documented code is %d" % (tag, kind, step_res["code"], code), None, case)]
    if status_res["code"] != 0:
        return [("C18|%s|not-idle-after-return|%s" % (kind, context), "%s: sqfvm_status is %d after call %s returned" % (tag, status_res["code"], kind), None, case)]
    cbs = step_res["cb"]
    if kind == "reenter-call" and step_res.get("reenter") != [-4, 2]:
        return [("C18|%s|reentrant-request-not-refused|%s" % (kind, context), "%s: sqfvm_call / sqfvm_status issued from the log callback while the call executes returned %r, documented -4 / 2" % (
            tag, step_res.get("reenter")), None, case)]
    if ty != "cfg":
        for c in cbs:
            if c["ud"] != ud or c["cd"] != cd:
                return [("C18|%s|callback-data-wrong|%s" % (kind, context), "%s: callback during %s got user_data %d / call_data %d, expected %d / %d (%r)" % (
                    tag, kind, c["ud"], c["cd"], ud, cd, c["msg"][:60]), None, case)]
    else:
        for c in cbs:
            if c["ud"] != ud:
                return [("C18|%s|callback-data-wrong|%s" % (kind, context), "%s: callback during load_config got user_data %d expected %d" % (tag, c["ud"], ud), None, case)]
    got_logs = [c["msg"].split("[DIAG_LOG] ", 1)[1] for c in cbs if "[DIAG_LOG] " in c["msg"]]
    want = logs
    if kind == "read-global":
        want = ["[5]"] if gv_set else ["[nil]"]
    if kind == "read-config":
        want = ["[3]"] if cfg_loaded else ["[0]"]
    if want is not None and got_logs != want:
        return [("C18|%s|logging-incomplete-or-foreign|%s" % (kind, context), "%s: call %s delivered diag_log payloads %r, expected %r" % (tag, kind, got_logs, want), None, case)]
    if code == -6 and ty == "s" and kind not in ("nonterminating", "sleeper-past-limit") and not any(c["sev"] <= 1 for c in cbs):
        return [("C18|%s|error-not-logged|%s" % (kind, context), "%s: failing call %s delivered no error-level diagnostic" % (tag, kind), None, case)]
    if code == 0 and ty in ("s", "p") and kind not in EVAL_FAILS and any(c["sev"] == 0 for c in cbs):
        return [("C18|%s|fatal-diagnostic-on-success|%s" % (kind, context), "%s: successful call %s delivered a fatal diagnostic: %r" % (tag, kind, [c["msg"][:80] for c in cbs if c["sev"] == 0][:1]), None, case)]
    return v


def check(ws, case):
    mode, arg = case
    steps = []
    plan = []
    if mode == "one":
        steps.append({"op": "create", "h": 0, "kind": "full", "max_runtime": 0.05, "ud": 100})
        for i, k in enumerate(arg):
            steps.append(step_for(k, 0, 200 + i)); plan.append((k, len(steps) - 1, 100, 200 + i))
            steps.append({"op": "status", "h": 0})
    elif mode == "create":
        steps.append({"op": "create", "h": 0, "kind": arg[0], "max_runtime": 0.05, "ud": 100})
        steps.append(step_for(arg[1], 0, 200)); plan.append((arg[1], 1, 100, 200))
        steps.append({"op": "status", "h": 0})
    elif mode == "two":
        steps.append({"op": "create", "h": 0, "kind": "full", "max_runtime": 0.05, "ud": 100})
        steps.append({"op": "create", "h": 1, "kind": "full", "max_runtime": 0.05, "ud": 101})
        for i, (k, h) in enumerate([(arg[0], 0), (arg[1], 1), ("read-global", 0), ("read-global", 1), ("read-config", 0), ("read-config", 1)]):
            steps.append(step_for(k, h, 300 + i)); plan.append((k, len(steps) - 1, 100 + h, 300 + i, h))
            steps.append({"op": "status", "h": h})
    elif mode == "aged":
        steps.append({"op": "create", "h": 0, "kind": "full", "max_runtime": 0.05, "ud": 100})
        steps.append({"op": "clock", "add_us": arg[0] * 1000})
        steps.append(step_for(arg[1], 0, 200)); plan.append((arg[1], 2, 100, 200))
        steps.append({"op": "status", "h": 0})
    elif mode == "invalid":
        hk, c = arg
        steps.append({"op": "create", "h": 0, "kind": "full", "max_runtime": 0.05, "ud": 100})
        if hk == "destroyed":
            steps.append({"op": "destroy", "h": 0})
            hk2 = "live"    # the map no longer knows it -> NULL; a dangling pointer would be use-after-free by the caller
        else:
            hk2 = hk
        st = {"call": {"op": "call", "h": 5, "type": "s", "text": "1", "cd": 1}, "status": {"op": "status", "h": 5},
              "load_config": {"op": "load_config", "h": 5, "text": "class A {};"}, "destroy": {"op": "destroy_raw", "h": 5}}[c]
        st["handle"] = hk2 if hk != "destroyed" else "null"
        steps.append(st)
    r = ws.call({"mode": "api", "fork": True, "timeout_ms": 30000, "tick_us": 20, "steps": steps}, variant="asan", max_alloc_mb=512)
    info = {"n": 1, "nontrivial": 1 if (mode != "one" or (len(arg) > 1 and CALLS[arg[0]][2] != 0)) else 0, "states": len(plan) or 1, "transitions": len(steps), "executions": 1}
    if r["outcome"] != "ok":
        from .c09 import kind_class
        kind = r.get("kind", r["outcome"]) if r["outcome"] == "crash" else r["outcome"]
        last = arg[-1] if mode in ("one",) else str(arg)
        # blame the first call after which the process dies
        culprit = last
        if mode == "one" and len(arg) > 1:
            for n in range(1, len(arg) + 1):
                r1 = ws.call({"mode": "api", "fork": True, "timeout_ms": 30000, "tick_us": 20, "steps": steps[:1 + 2 * n]}, variant="asan", max_alloc_mb=512)
                if r1["outcome"] != "ok":
                    culprit = arg[n - 1]
                    break
        return [("C18|%s|%s" % (culprit, kind_class(kind)), "history %s %r: %s in %s" % (mode, arg, kind, r.get("frame", "")[:120]), None, case)], info
    res = r["result"]["steps"]
    if mode == "invalid":
        code = res[-1]["code"]
        if code != -1:
            return [("C18|invalid-handle|%s|wrong-code" % arg[1], "%s with a %s handle returned %d, documented -1" % (arg[1], arg[0], code), None, case)], info
        return [], info
    gv = {0: False, 1: False}
    cfg = {0: False, 1: False}
    for p in plan:
        k, idx, ud, cd = p[:4]
        h = p[4] if len(p) > 4 else 0
        prev = "first-call"
        if mode == "one":
            pos = [q[1] for q in plan].index(idx)
            if pos > 0:
                pk = arg[pos - 1]
                prev = "after-" + ("ok" if CALLS[pk][2] == 0 else ("limit" if pk in ("nonterminating", "sleeper-past-limit") else "failing")) + "-call"
        elif mode == "aged":
            prev = "instance-age>limit" if arg[0] > 50 else "instance-age<=limit"
        elif mode == "two":
            prev = "two-instances"
        elif mode == "create":
            prev = "ops=" + arg[0]
            if arg[0] != "full" and CALLS[k][0] == "s" and k != "parse-error":
                continue    # without operators the script cannot be expected to run
        v = judge_call(k, res[idx], res[idx + 1], ud, cd, gv[h], cfg[h], "history %s %r" % (mode, arg), case, prev)
        if v:
            return v, info
        if k == "set-global":
            gv[h] = True
        if k == "load-config":
            cfg[h] = True
    return [], info


def spaces(tier):
    return [Space("one-instance-histories", gen_hist(2 if tier == "quick" else 3), check, variant="asan", describe="all call histories on one instance"),
            Space("creation-handles-two-instances-age", gen_misc, check, variant="asan", describe="creation variants, invalid handles, two instances, aged instance")]
