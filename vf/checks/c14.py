"""C14 - diagnostics name the true source file and line (and column) of the culprit.

Layouts (sequences of line-consuming blocks: blank / comment lines, block comments spanning lines, single- and
multi-line #define, use of a multi-line macro, active / inactive conditional sections, #include of a file that itself
contains blocks) are followed by a probe line of each kind at several column offsets; the whole file goes through
preprocess -> parse -> run on the real VM and the structured location of every diagnostic is compared with the
physical position of the probe in the original file.
"""
import itertools, os
from ..engine import Space
from .. import build as B

PROPERTY = "C14"
LEVEL = "exploration"
VARIANTS = ["fast"]
RULE = ("layouts = all sequences of <=2 (quick) / <=3 (thorough) blocks from 25 block kinds (x LF/CRLF), probe = 9 kinds x 3 column offsets, "
        "probe in the main file or inside an included file, for layouts of <=1 block also behind 5 same-line prefixes (statement, strings spanning lines, strings with escaped quotes); a case = (layout, line ending, probe kind, column); non-trivial = layout has "
        "at least one block; distinct by case")
ASSUMPTIONS = [
    "line/column numbering base is calibrated on the trivial layout (no blocks): only drift is judged",
    "columns are judged for probes on lines not produced by macro expansion",
]
DEADLINE_S = {"quick": 420, "thorough": 1500}

SCR = os.path.join(B.BUILD, "scratch", "c14")

BLOCKS = {
    "blank": [""],
    "line-comment": ["// comment"],
    "block-comment-1": ["/* c */"],
    "block-comment-2": ["/* c", "   d */"],
    "block-comment-3": ["/* c", " d", " e */"],
    # lines inside a comment / string that hold nothing, blanks only, or a lone star
    "block-comment-empty-line": ["/* c", "", " d */"],
    "block-comment-empty-lines-2": ["/* c", "", "", "*/"],
    "block-comment-blank-and-star-lines": ["/*", "   ", " *", " */ bc = 1;"],
    "multiline-string": ['ms = "l1', "", 'l3";'],
    "define": ["#define A 1"],
    "define-2lines": ["#define M(a) a \\", "  + 1"],
    "define-3lines": ["#define N(a) a \\", "  + 1 \\", "  + 2"],
    "use-multiline-macro": ["#define M2(a) a \\", " + 1", "u = M2(2);"],
    "ifdef-true": ["#define T", "#ifdef T", "t = 1;", "#else", "t = 2;", "t = 3;", "#endif"],
    "ifdef-false": ["#ifdef NOPE", "f = 1;", "f = 2;", "#else", "f = 3;", "#endif"],
    "ifndef-false-noelse": ["#define K", "#ifndef K", "k = 1;", "#endif"],
    # line-consuming directives inside an inactive section still consume their physical lines
    "inactive-define-3lines": ["#ifdef NOPE", "#define Z(a) a \\", "  + 1 \\", "  + 2", "#endif"],
    "inactive-else-define-2lines": ["#define T2", "#ifdef T2", "a2 = 1;", "#else", "#define W(a) a \\", " + 1", "#endif"],
    "inactive-directives": ["#ifdef NOPE", "#define Q 1", "#undef Q", '#include "/nonexistent.hpp"', "/* c", " d */", "#endif"],
    # a macro CALL spread over several lines (line breaks at argument boundaries)
    "multiline-macro-call": ["#define M3(a,b,c) a + b + c", "v = M3(1,", "  2,", "  3);"],
    "multiline-macro-call-open": ["#define P2(a,b) [a, b]", "w = P2(", "  1,", "  2", ");"],
    "statement": ["s = 1;"],
    "include": ['#include "/inc_a.hpp"'],
    "include-nested": ['#include "/inc_b.hpp"'],
    "trailing-comment": ["q = 1; // tail /* x"],
}
INC_FILES = {
    "inc_a.hpp": ["// inc a", "#define IA 1", "ia = IA;", "/* x", " y */", "ia2 = 2;"],
    "inc_b.hpp": ["ib = 1;", '#include "/inc_a.hpp"', "ib2 = 2;", "#define IB(a) a \\", " + 1"],
    "inc_probe.hpp": None,   # written per case
    "inc_defs.hpp": ["// position macros", "#define VF_ID(a) a", "#define VF_HERE_LINE VF_ID(__LINE__)", "#define VF_HERE_FILE VF_ID(__FILE__)"],
}
PROBES = {
    "type-error": ('1 + "a";', 60076),
    "diag_log": ('diag_log "P";', 60019),
    "line-macro": ("diag_log str [__LINE__];", 60019),
    "file-macro": ("diag_log str [__FILE__];", 60019),
    # the position macros as argument of a function-like macro inside the body of another macro that is defined in
    # another file: they name the place where the outer macro is USED
    "line-macro-nested": ("diag_log str [VF_HERE_LINE];", 60019),
    "file-macro-nested": ("diag_log str [VF_HERE_FILE];", 60019),
    "parse-error": ("x = ;", None),
    "stacktrace": ('call { call { 1 + "b" } };', 60001),
    "undefined-variable": ("y = _undef1;", 60070),
}
COLS = [0, 1, 4]
# something in front of the probe ON THE PROBE'S LINE: the column is that of the culprit, not of the line start
PREFIXES = {
    "none": "",
    "statement": "pf = 1; ",
    "string-multiline-dq": 'pf = "a\nbc"; ',
    "string-multiline-sq": "pf = 'a\n\nb'; ",
    "string-escaped-quotes": 'pf = "ab""cd"; ',
    "string-escaped-quotes-sq": "pf = 'a''b''c'; ",
}


def gen(maxblocks, endings):
    def g():
        names = list(BLOCKS)
        for n in range(0, maxblocks + 1):
            for layout in itertools.product(names, repeat=n):
                for e in endings:
                    for p in PROBES:
                        for c in COLS:
                            for where in ("main", "include"):
                                if where == "include" and (n > 1 or c != 0):
                                    continue
                                yield [list(layout), e, p, c, where]
                                if where == "main" and n <= 1 and c != 1:
                                    for pf in PREFIXES:
                                        if pf != "none":
                                            yield [list(layout), e, p, c, where, pf]
    return g


def build(case):
    layout, ending, probe, col, where = case[:5]
    prefix = PREFIXES[case[5]] if len(case) > 5 else ""
    lines = []
    if probe.endswith("-nested"):
        lines.append('#include "/inc_defs.hpp"')
    for b in layout:
        lines += BLOCKS[b]
    probe_text = " " * col + prefix + PROBES[probe][0]
    files = {k: v for k, v in INC_FILES.items() if v is not None}
    if where == "main":
        pline = len(lines) + prefix.count("\n")
        lines.append(probe_text)
        lines.append("after = 1;")
        target = "main.sqf"
    else:
        inc = ["// first line of the probe include", "zz = 1;"] + lines + [probe_text, "zz2 = 2;"]
        pline = 2 + len(lines)
        files["inc_probe.hpp"] = inc
        lines = ["m0 = 0;", '#include "/inc_probe.hpp"', "m1 = 1;"]
        target = "inc_probe.hpp"
    nl = "\r\n" if ending == "crlf" else "\n"
    return nl.join(lines) + nl, {k: nl.join(v) + nl for k, v in files.items()}, pline, target


_calib = {}


def run(ws, text, files, tag):
    d = os.path.join(SCR, "w%d" % os.getpid())
    os.makedirs(d, exist_ok=True)
    for k, v in files.items():
        with open(os.path.join(d, k), "w", newline="") as f:
            f.write(v)
    req = {"mode": "steps", "fork": True, "timeout_ms": 10000, "clock": {"tick_us": 1},
           "steps": [{"op": "vm", "id": 0, "template": True, "max_runtime_ms": 300},
                     {"op": "map", "id": 0, "phys": d, "virt": "/"},
                     {"op": "sqf", "id": 0, "text": text, "path": "/main.sqf", "phys": os.path.join(d, "main.sqf"), "preprocess": True},
                     {"op": "exec", "id": 0, "action": "start"}]}
    from . import c02
    return ws.call(req, variant="fast", prepare=c02.PREP), d


def observe(r, probe):
    """-> (line, col, path, value) of the probe's diagnostic, or None."""
    if r["outcome"] != "ok":
        return None
    code = PROBES[probe][1]
    for m in r["result"]["log"]:
        if probe == "parse-error":
            if m["lvl"] <= 1 and 30000 <= m["code"] < 40000:
                return m.get("line"), m.get("col"), m.get("path"), None
        elif m["code"] == code:
            if probe == "diag_log" and "[DIAG_LOG] P" not in m["msg"]:
                continue
            if probe in ("line-macro", "file-macro", "line-macro-nested", "file-macro-nested") and "[DIAG_LOG] [" not in m["msg"]:
                continue
            if probe == "type-error" and "STRING" not in m["msg"]:
                continue
            val = m["msg"].split("[DIAG_LOG] ", 1)[1] if "[DIAG_LOG] " in m["msg"] else None
            return m.get("line"), m.get("col"), m.get("path"), val
    return None


def calibrate(ws, ending, probe, col, where):
    key = (ending, probe, col, where)
    if key not in _calib:
        text, files, pline, target = build([[], ending, probe, col, where])
        r, d = run(ws, text, files, "calib")
        o = observe(r, probe)
        if o is None:
            raise RuntimeError("calibration failed for %r: %r" % (key, r.get("result", {}).get("log", r)))
        line_macro = None
        if probe.startswith("line-macro"):
            line_macro = int(float(o[3].strip("[]")))
        _calib[key] = (o[0] - pline, o[1], line_macro - pline if line_macro is not None else None)
    return _calib[key]


def check(ws, case):
    layout, ending, probe, col, where = case[:5]
    prefix = PREFIXES[case[5]] if len(case) > 5 else ""
    base_line, base_col, base_macro = calibrate(ws, ending, probe, col, where)
    if prefix and base_col is not None:
        # the probe starts behind the prefix (behind the last line of it, if it spans lines)
        base_col = base_col + len(prefix) if "\n" not in prefix else base_col - col + len(prefix.split("\n")[-1])
    text, files, pline, target = build(case)
    r, d = run(ws, text, files, "case")
    info = {"n": 1, "nontrivial": 1 if layout else 0}
    feat = "+".join(sorted(set(layout))) or "none"
    tag = "%s|%s|%s" % (probe, where, ending) + ("|after-" + case[5] if len(case) > 5 else "")
    if r["outcome"] != "ok":
        return [("C14|%s|crash|%s" % (tag, feat), "layout %r: %s" % (layout, r.get("kind", r["outcome"])), None, case)], info
    o = observe(r, probe)
    if o is None:
        errs = [m["msg"][:100] for m in r["result"]["log"] if m["lvl"] <= 1][:2]
        return [("C14|%s|probe-diagnostic-missing|%s" % (tag, feat), "layout %r: the probe's diagnostic did not appear (%s)" % (layout, errs), None, case)], info
    line, c, path, val = o
    want_line = pline + base_line
    viols = []
    if line != want_line:
        viols.append(("C14|%s|line-drift|%s" % (tag, blame(layout)), "layout %r (%s): diagnostic names line %s, the probe is on line %s (drift %+d)" % (
            layout, ending, line, want_line, line - want_line), None, case))
    elif not (path or "").endswith(target):
        viols.append(("C14|%s|wrong-file|%s" % (tag, feat), "layout %r: diagnostic names file %r, the probe is in %r" % (layout, path, target), None, case))
    elif c != base_col:
        viols.append(("C14|%s|column-drift|%s" % (tag, feat), "layout %r: column %s, expected %s" % (layout, c, base_col), None, case))
    if probe.startswith("line-macro") and not viols:
        got = int(float(val.strip("[]")))
        if got != pline + base_macro:
            viols.append(("C14|%s|__LINE__-value|%s" % (tag, blame(layout)), "layout %r: __LINE__ is %d, expected %d" % (layout, got, pline + base_macro), None, case))
    if probe.startswith("file-macro") and not viols:
        if target not in (val or ""):
            viols.append(("C14|%s|__FILE__-value|%s" % (tag, feat), "layout %r: __FILE__ is %s, expected a path ending in %s" % (layout, val, target), None, case))
    return viols, info


def blame(layout):
    """Block kinds that shift lines (for the signature): the drift-relevant kinds only."""
    drifty = [b for b in sorted(set(layout)) if b not in ("blank", "statement", "line-comment", "define", "trailing-comment")]
    return "+".join(drifty) or "plain-lines"


def spaces(tier):
    if tier == "quick":
        return [Space("layouts", gen(2, ["lf"]), check, variant="fast", describe="<=2 blocks, LF, 7 probe kinds x 3 columns, probe in main or included file"),
                Space("layouts-crlf", gen(1, ["crlf"]), check, variant="fast", describe="<=1 block, CRLF line ends")]
    return [Space("layouts", gen(3, ["lf"]), check, variant="fast", describe="<=3 blocks, LF"),
            Space("layouts-crlf", gen(2, ["crlf"]), check, variant="fast", describe="<=2 blocks, CRLF")]
