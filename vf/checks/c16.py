"""C16 - the virtual file system resolves deterministically and never leaves the mapped roots.

Mapping configurations (nested / overlapping virtual prefixes, several roots per prefix) over a scratch directory
tree in which every file holds a token naming its own physical path, plus a bait file outside every root; request
paths are built from prefix x remainder alphabets containing `..`, `.`, empty segments, slash/backslash mixes and
absolute physical paths; requesters are loadFile, preprocessFile, preprocessFileLineNumbers, execVM and #include
(depth 1 and 2). The file actually served is compared with a reference resolver.
"""
import itertools, os, posixpath
from ..engine import Space
from .. import build as B

PROPERTY = "C16"
LEVEL = "exploration"
VARIANTS = ["fast"]
RULE = ("9 mapping configurations x 9 path prefixes x 24 remainders (thorough: + all remainders of <=3 segments over 7 segment kinds) (+ absolute physical forms) x 5 requesters (script operators, #include at "
        "depth 1 and 2); a case = (configuration, requester, path); non-trivial = path contains a `..`, `.`, backslash, duplicate separator or "
        "the configuration has nested / multi-root prefixes; distinct by case")
ASSUMPTIONS = [
    "relative requests from script operators carry no current file and are taken against the virtual root",
    "Linux path forms only (no drive letters)",
    "when the deepest mapped prefix does not contain the file there is no fallback to a shallower prefix (the statement says `and to nothing else`)",
    "not judged: a relative #include whose `..` climbs out of the mapped prefix its including file lives under (virtual vs physical reading differ)",
]
DEADLINE_S = {"quick": 420, "thorough": 1200}

ROOT = os.path.join(B.BUILD, "scratch", "c16")
TREE = {
    "r1": ["f.sqf", "sub/f.sqf", "sub/g.sqf", "y/f.sqf", "y/deep/f.sqf", "main.sqf", "sub/inc2.hpp"],
    "r2": ["f.sqf", "only2.sqf", "sub/h.sqf", "sub/f.sqf"],
    "r3": ["f.sqf", "z.sqf", "deep/f.sqf"],
    "bait": ["secret.sqf", "f.sqf"],
}
CONFIGS = {
    "root=r1": [("/", "r1")],
    "x=r1": [("/x", "r1")],
    "x=r1,r2": [("/x", "r1"), ("/x", "r2")],
    "x=r2,r1": [("/x", "r2"), ("/x", "r1")],
    "x=r1;x/y=r3": [("/x", "r1"), ("/x/y", "r3")],
    "root=r2;x=r1": [("/", "r2"), ("/x", "r1")],
    # a prefix that is a string prefix of another one but not a path prefix; an unmapped parent; three levels
    "x=r1;xy=r3": [("/x", "r1"), ("/xy", "r3")],
    "q=r1;x/y=r3": [("/q", "r1"), ("/x/y", "r3")],
    "x=r1;x/y=r3;x/y/deep=r2": [("/x", "r1"), ("/x/y", "r3"), ("/x/y/deep", "r2")],
}
PREFIXES = ["/x/", "/", "x/", "", "/x/y/", "\\x\\", "//x//", "/xy/", "/x/y/deep/"]
REMAINDERS = ["f.sqf", "sub/f.sqf", "sub/../f.sqf", "./f.sqf", "sub/./g.sqf", "y/f.sqf", "y/../f.sqf", "../f.sqf", "../bait/secret.sqf",
              "sub/../../bait/secret.sqf", "../../f.sqf", "sub//f.sqf", "sub\\f.sqf", "only2.sqf", "sub/h.sqf", "nope.sqf", "y/deep/../f.sqf",
              "y/deep/../../f.sqf", "deep/f.sqf", "z.sqf", "../x/f.sqf", "sub/../sub/../f.sqf", "..\\bait\\secret.sqf", "sub/../../r2/only2.sqf"]
REQUESTERS = ["loadFile", "preprocessFile", "preprocessFileLineNumbers", "execVM", "include1", "include2"]


def token(root, rel):
    return "TOKEN<%s/%s>" % (root, rel)


def setup():
    for r, files in TREE.items():
        for rel in files:
            p = os.path.join(ROOT, r, rel)
            os.makedirs(os.path.dirname(p), exist_ok=True)
            if rel == "main.sqf" or rel == "sub/inc2.hpp":
                if not os.path.exists(p):
                    open(p, "w").write("")
                continue
            want = 'TOK pushBack "%s";' % token(r, rel)
            if not os.path.exists(p) or open(p).read() != want:
                open(p, "w").write(want)


def gen(tier):
    def g():
        for cfg in CONFIGS:
            for req in REQUESTERS:
                rems = list(REMAINDERS)
                if tier != "quick":
                    # every remainder of 1..3 segments over a 7-segment alphabet (names that exist as file / directory in some root,
                    # `..`, `.`, the empty segment)
                    segs = ["f.sqf", "sub", "y", "deep", "..", ".", ""]
                    for n in (1, 2, 3):
                        for t in itertools.product(segs, repeat=n):
                            r_ = "/".join(t)
                            if r_ not in rems:
                                rems.append(r_)
                paths = [p + r for p in PREFIXES for r in rems]
                paths += [os.path.join(ROOT, "r1", "f.sqf"), os.path.join(ROOT, "r1", "sub", "..", "f.sqf"), os.path.join(ROOT, "bait", "secret.sqf"),
                          os.path.join(ROOT, "r1", "..", "bait", "secret.sqf"), os.path.join(ROOT, "r3", "z.sqf"), os.path.join(ROOT, "r2", "only2.sqf"),
                          "/etc/hostname", os.path.join(ROOT, "r1"), ROOT + "/r1//f.sqf"]
                if tier == "quick" and req in ("preprocessFileLineNumbers",):
                    paths = paths[::3]
                for p in paths:
                    yield [cfg, req, p]
    return g


def normalise(path, cwd):
    """Lexical normalisation of a virtual path; returns None if it climbs above the root."""
    p = path.replace("\\", "/")
    if not p.startswith("/"):
        p = cwd.rstrip("/") + "/" + p
    parts = []
    for seg in p.split("/"):
        if seg in ("", "."):
            continue
        if seg == "..":
            if not parts:
                return None
            parts.pop()
        else:
            parts.append(seg)
    return "/" + "/".join(parts)


def resolve_virtual(cfg, vpath):
    maps = CONFIGS[cfg]
    best = None
    for virt, root in maps:
        v = virt.rstrip("/")
        if vpath == v or vpath.startswith(v + "/") or v == "":
            if best is None or len(v) > len(best):
                best = v
    if best is None:
        return None
    rem = vpath[len(best):].lstrip("/")
    for virt, root in maps:
        if virt.rstrip("/") == best:
            cand = os.path.join(ROOT, root, rem)
            if os.path.isfile(cand):
                return root, rem
    return None


def reference(cfg, path, cwd="/"):
    """-> (root, rel) of the file that must be served, or None (not found)."""
    p = path.replace("\\", "/")
    cands = []
    v = normalise(path, cwd)
    if v is not None:
        r = resolve_virtual(cfg, v)
        if r:
            cands.append(r)
    # absolute physical path inside a mapped root
    if p.startswith("/"):
        phys = posixpath.normpath(p)
        for virt, root in CONFIGS[cfg]:
            base = os.path.join(ROOT, root)
            if phys.startswith(base + "/") and os.path.isfile(phys):
                cands.append((root, phys[len(base) + 1:]))
    return cands


def check(ws, case):
    setup()
    cfg, req, path = case
    maps = [[os.path.join(ROOT, root), virt] for virt, root in CONFIGS[cfg]]
    lit = '"' + path.replace('"', '""') + '"'
    cwd = "/"
    if req in ("loadFile", "preprocessFile", "preprocessFileLineNumbers"):
        text = "TOK = []; diag_log str [%s %s]" % (req, lit)
    elif req == "execVM":
        text = "TOK = []; _h = execVM %s; [] spawn { diag_log str [TOK] }" % lit
    else:
        # #include from a main file that lives at <first mapping>/main.sqf (depth 1) or via sub/inc2.hpp (depth 2)
        virt0, root0 = [m for m in CONFIGS[cfg] if m[1] == "r1"][0]     # the including file lives in r1
        vmain = virt0.rstrip("/") + "/main.sqf"
        cwd = virt0.rstrip("/") + "/"
        if req == "include1":
            inc_text = '#include %s\n' % lit
        else:
            inc2 = "inc2_%d.hpp" % os.getpid()     # one per shard process: cases run in parallel
            open(os.path.join(ROOT, root0, "sub", inc2), "w").write('#include %s\n' % lit)
            inc_text = '#include "sub\\%s"\n' % inc2
            cwd = virt0.rstrip("/") + "/sub/"
        text = None
    if text is not None:
        r = ws.call({"mode": "eval", "fork": True, "timeout_ms": 8000, "conf": {"ops": "full"}, "maps": maps, "texts": [text]}, variant="fast")
        if r["outcome"] != "ok":
            return [("C16|%s|%s" % (req, r.get("kind", r["outcome"])), "%s %r with %s: %s" % (req, path, cfg, r.get("kind")), None, case)], {"n": 1}
        out = " ".join(m["msg"] for m in r["result"]["items"][0]["log"] if m["code"] == 60019)
    else:
        phys_main = os.path.join(ROOT, root0, "main.sqf")
        # like the CLI: the main file is known by its physical path only
        # the main file is known by the path information the file system itself hands out (physical + virtual)
        r = ws.call({"mode": "pp", "fork": True, "timeout_ms": 8000, "cases": [{"text": inc_text, "maps": maps, "path": vmain, "phys": phys_main, "conf": {"ops": "none"}}]}, variant="fast")
        if r["outcome"] != "ok":
            return [("C16|%s|%s" % (req, r.get("kind", r["outcome"])), "%s %r with %s: %s" % (req, path, cfg, r.get("kind")), None, case)], {"n": 1}
        out = r["result"]["items"][0].get("out", "")
    if req.startswith("include") and not path.replace("\\", "/").startswith("/"):
        # a relative include whose `..` leaves the mapped prefix the including file lives under: whether it is taken
        # against the virtual or the physical location of that file is not fixed by the statement -> not judged
        pref = [m[0] for m in CONFIGS[cfg] if m[1] == "r1"][0].rstrip("/") + "/"
        depth = len([x for x in cwd[len(pref):].split("/") if x])
        for seg in path.replace("\\", "/").split("/"):
            if seg == "..":
                depth -= 1
                if depth < 0:
                    return [], {"n": 0, "nontrivial": 0, "excluded": 1}
            elif seg not in ("", "."):
                depth += 1
    served = []
    import re
    for m in re.finditer(r"TOKEN<([^/>]+)/([^>]+)>", out):
        served.append((m.group(1), m.group(2)))
    served = sorted(set(served))
    allowed = reference(cfg, path, cwd)
    weird = any(x in path for x in ("..", "./", "\\", "//")) or len(CONFIGS[cfg]) > 1
    info = {"n": 1, "nontrivial": 1 if weird else 0}
    shape = classify(path)
    if any(s[0] == "bait" for s in served) or "hostname" in out:
        return [("C16|%s|served-file-outside-roots|%s" % (req, shape), "%s %r with mappings %s served %s" % (req, path, cfg, served), None, case)], info
    mapped_roots = set(root for _, root in CONFIGS[cfg])
    if any(s[0] not in mapped_roots for s in served):
        return [("C16|%s|served-unmapped-root|%s" % (req, shape), "%s %r with mappings %s served %s" % (req, path, cfg, served), None, case)], info
    if served and classify(path).startswith("absolute-physical") and allowed:
        # an absolute physical path inside a root is mapped back to its virtual name: any root of that prefix may serve it
        if served[0][1] == allowed[0][1]:
            return [], info
    if served:
        if not allowed or served[0] not in allowed[:1] and served[0] not in allowed:
            return [("C16|%s|wrong-file|%s|%s" % (req, shape, cfgshape(cfg)), "%s %r with mappings %s served %s, reference %s" % (req, path, cfg, served, allowed or "not found"), None, case)], info
        if served[0] != allowed[0] and len(set(allowed)) > 1 and served[0] in allowed:
            pass   # virtual and physical reading both legitimate
    else:
        if allowed:
            return [("C16|%s|not-found-although-mapped|%s|%s" % (req, shape, cfgshape(cfg)), "%s %r with mappings %s found nothing, reference %s" % (req, path, cfg, allowed), None, case)], info
    return [], info


def classify(path):
    f = []
    if path.startswith(ROOT) or path.startswith("/etc"):
        f.append("absolute-physical")
    if ".." in path:
        f.append("dotdot")
    if "./" in path.replace("../", ""):
        f.append("dot")
    if "\\" in path:
        f.append("backslash")
    if "//" in path:
        f.append("dup-separator")
    if not path.startswith(("/", "\\")):
        f.append("relative")
    return "+".join(f) or "plain"


def cfgshape(cfg):
    return {"root=r1": "single-root", "x=r1": "single-prefix", "x=r1,r2": "two-roots", "x=r2,r1": "two-roots", "x=r1;x/y=r3": "nested-prefixes", "root=r2;x=r1": "nested-prefixes"}[cfg]


def gen_twice():
    for cfg in CONFIGS:
        if any(v.startswith("/x/y") for v, _ in CONFIGS[cfg]):
            continue      # the directory y of the including file's root is shadowed by a nested mapping there
        for order in ("sub-first", "y-first"):
            for sep in ("/", "\\"):
                yield [cfg, order, sep]


def check_twice(ws, case):
    """Two files in different directories each contain `#include "f.sqf"`: each gets the file next to ITSELF, in one run."""
    setup()
    cfg, order, sep = case
    maps = [[os.path.join(ROOT, root), virt] for virt, root in CONFIGS[cfg]]
    virt0, root0 = [m for m in CONFIGS[cfg] if m[1] == "r1"][0]
    pid = os.getpid()
    for d in ("sub", "y"):
        open(os.path.join(ROOT, root0, d, "same_%d.hpp" % pid), "w").write('#include "f.sqf"\n')
    dirs = ["sub", "y"] if order == "sub-first" else ["y", "sub"]
    inc_text = "".join('#include "%s%ssame_%d.hpp"\n' % (d, sep, pid) for d in dirs)
    vmain = virt0.rstrip("/") + "/main.sqf"
    r = ws.call({"mode": "pp", "fork": True, "timeout_ms": 8000, "cases": [{"text": inc_text, "maps": maps, "path": vmain, "phys": os.path.join(ROOT, root0, "main.sqf"), "conf": {"ops": "none"}}]}, variant="fast")
    info = {"n": 1, "nontrivial": 1}
    if r["outcome"] != "ok":
        return [("C16|include-same-name|%s" % r.get("kind", r["outcome"]), "%r: %s" % (case, r.get("kind")), None, case)], info
    out = r["result"]["items"][0].get("out", "")
    import re
    served = [(m.group(1), m.group(2)) for m in re.finditer(r"TOKEN<([^/>]+)/([^>]+)>", out)]
    # with a nested mapping x/y=r3 the directory y of the including file is shadowed for ABSOLUTE virtual paths only; the relative
    # include stays next to the including file physically or goes to the mapped one - both contain an f.sqf of their own; what is
    # fixed is that the two includes do not resolve to the SAME file
    want = [("r1", d + "/f.sqf") for d in dirs]
    # which root of a multi-root prefix serves the file (first root that has it) and a nested mapping of /x/y are judged by the
    # requests space; here: each include gets the f.sqf of ITS directory
    ok = len(served) == 2 and all(sv[1] == d + "/f.sqf" or (d == "y" and sv == ("r3", "f.sqf")) for sv, d in zip(served, dirs))
    if not ok:
        return [("C16|include-same-name|wrong-file", "%r: two files in different directories include \"f.sqf\": served %r, expected %r" % (case, served, want), None, case)], info
    return [], info


def spaces(tier):
    return [Space("requests", gen(tier), check, variant="fast", describe="mapping configurations x requesters x request paths"),
            Space("same-name-relative-includes", gen_twice, check_twice, variant="fast", describe="two files in different directories include the same relative name in one preprocessing run")]
