"""C08 - arrays are shared references, copies are independent, and never cyclic.

Operation histories over a small heap (variables a, b, c, copy target d, hashmap m) started from four aliasing
patterns; after every operation `str` of every variable on the real VM is compared with a Python reference heap
(lists with aliasing). Self-containment attempts through every inserting operator must be refused (container
unchanged, diagnostic) - printing a cyclic structure would overflow the stack and is caught by the watchdog.
"""
import copy, itertools, json
from ..engine import Space

PROPERTY = "C08"
LEVEL = "model_checking"
VARIANTS = ["fast"]
RULE = ("all operation sequences of length <=2 (quick) / <=3 (thorough) over ~50 operations (in-place ops with boundary indices, copying "
        "ops followed by mutation, self-containment attempts direct / through an intermediate container / through a hashmap) from 5 "
        "aliasing patterns; states = distinct reference heaps (up to printing) reached; transitions = operations executed and compared")
ASSUMPTIONS = [
    "strict content comparison only where the statement fixes the rule (set beyond the end grows with nils; negative index / negative size / "
    "deleteAt index >= size are rejected with a diagnostic and leave the array unchanged); sort only on all-number arrays; deleteRange only "
    "with [1,1] (the statement does not fix whether the second element is a count or an end index; both readings agree there)",
    "a refused operation must emit at least one diagnostic of level warning or worse",
]
DEADLINE_S = {"quick": 420, "thorough": 1500}

PATTERNS = {
    "distinct": "a = [1,2,3]; b = [4,5]; c = [6]; d = nil; m = createHashMap;",
    "b=a": "a = [1,2,3]; b = a; c = [6]; d = nil; m = createHashMap;",
    "c=[a]": "a = [1,2,3]; b = [4]; c = [a]; d = nil; m = createHashMap;",
    "b=a,c=[a,b]": "a = [1,2]; b = a; c = [a, b]; d = nil; m = createHashMap;",
    # the same array sits in two slots AND holds an array itself: a deep copy reaches it over two paths
    "b=[a,7],c=[b,b]": "a = [1,2]; b = [a, 7]; c = [b, b]; d = nil; m = createHashMap;",
}


def init_heap(p):
    if p == "distinct":
        a, b, c = [1, 2, 3], [4, 5], [6]
    elif p == "b=a":
        a = [1, 2, 3]; b = a; c = [6]
    elif p == "c=[a]":
        a = [1, 2, 3]; b = [4]; c = [a]
    elif p == "b=[a,7],c=[b,b]":
        a = [1, 2]; b = [a, 7]; c = [b, b]
    else:
        a = [1, 2]; b = a; c = [a, b]
    return {"a": a, "b": b, "c": c, "d": None, "m": {}}


class Refused(Exception):
    pass


class Unspecified(Exception):
    pass


def contains(x, target, seen=None):
    """Does container x contain target (identity), directly or indirectly, or is it target itself?"""
    if x is target:
        return True
    if isinstance(x, list):
        return any(contains(e, target) for e in x)
    if isinstance(x, dict):
        return any(contains(e, target) for e in x.values())
    return False


def val(h, tok):
    if tok in h:
        return h[tok]
    return json.loads(tok)


OPS = []


def op(name, text):
    def deco(f):
        OPS.append((name, text, f))
        return f
    return deco


def insert_check(h, container, v):
    if isinstance(v, (list, dict)) and contains(v, container):
        raise Refused()


for X in ("a", "c"):
    for i, tag in ((0, "0"), ("size", "size"), ("size+2", "size+2"), (-1, "-1")):
        def f(h, X=X, i=i):
            arr = h[X]
            idx = len(arr) if i == "size" else (len(arr) + 2 if i == "size+2" else i)
            if idx < 0:
                raise Refused()
            while len(arr) <= idx:
                arr.append(None)
            arr[idx] = 7
        OPS.append(("%s set [%s,7]" % (X, tag), "%s set [%s, 7]" % (X, {"size": "count %s" % X, "size+2": "(count %s) + 2" % X}.get(i, i)), f))
    OPS.append(("%s pushBack 8" % X, "%s pushBack 8" % X, lambda h, X=X: h[X].append(8)))
    def pbu(h, X=X):
        if 1 not in h[X]:
            h[X].append(1)
    OPS.append(("%s pushBackUnique 1" % X, "%s pushBackUnique 1" % X, pbu))
    OPS.append(("%s append [9,[10]]" % X, "%s append [9,[10]]" % X, lambda h, X=X: h[X].extend([9, [10]])))
    for i, tag in ((0, "0"), ("last", "last"), ("size", "size"), (-1, "-1")):
        def f(h, X=X, i=i):
            arr = h[X]
            idx = len(arr) - 1 if i == "last" else (len(arr) if i == "size" else i)
            if idx < 0 or idx >= len(arr):
                raise Refused()
            del arr[idx]
        OPS.append(("%s deleteAt %s" % (X, tag), "%s deleteAt %s" % (X, {"last": "((count %s) - 1)" % X, "size": "(count %s)" % X}.get(i, i)), f))
    def dr(h, X=X):
        arr = h[X]
        if len(arr) < 2:
            raise Unspecified()
        del arr[0:2]
    OPS.append(("%s deleteRange [1,1]" % X, "if (count %s >= 2) then { %s deleteRange [1,1] }" % (X, X), lambda h, X=X: (h[X].__delitem__(1) if len(h[X]) >= 2 else None)))
    for n, tag in ((0, "0"), (1, "1"), ("size+2", "size+2"), (-1, "-1")):
        def f(h, X=X, n=n):
            arr = h[X]
            k = len(arr) + 2 if n == "size+2" else n
            if k < 0:
                raise Refused()
            while len(arr) > k:
                arr.pop()
            while len(arr) < k:
                arr.append(None)
        OPS.append(("%s resize %s" % (X, tag), "%s resize %s" % (X, "((count %s) + 2)" % X if n == "size+2" else n), f))
    OPS.append(("reverse %s" % X, "reverse %s" % X, lambda h, X=X: h[X].reverse()))

def sort_a(h):
    if not all(isinstance(x, (int, float)) and not isinstance(x, bool) for x in h["a"]):
        raise Unspecified()
    h["a"].sort()
OPS.append(("a sort true", "a sort true", sort_a))

# copying operations: result bound to d, then d and the source are mutated separately by later operations
def has_map(x):
    return isinstance(x, dict) or (isinstance(x, list) and any(has_map(e) for e in x))


def deep(x):
    if has_map(x):
        raise Unspecified()     # whether + copies a HashMap held by the array is not fixed by the statement (it is about arrays)
    return tree_copy(x)
def tree_copy(x):
    """+array copies along every path: an array reachable over two slots becomes two independent copies."""
    return [tree_copy(e) for e in x] if isinstance(x, list) else x
OPS.append(("d = +a", "d = +a", lambda h: h.__setitem__("d", deep(h["a"]))))
OPS.append(("d = +c", "d = +c", lambda h: h.__setitem__("d", deep(h["c"]))))
OPS.append(("d = a + [9]", "d = a + [9]", lambda h: h.__setitem__("d", list(h["a"]) + [9])))
# one operand empty: the sum is still a new array (the shallow-copy idiom `_a + []`)
OPS.append(("d = a + []", "d = a + []", lambda h: h.__setitem__("d", list(h["a"]))))
OPS.append(("d = [] + a", "d = [] + a", lambda h: h.__setitem__("d", list(h["a"]))))
OPS.append(("d = c + []", "d = c + []", lambda h: h.__setitem__("d", list(h["c"]))))
def minus(h):
    h["d"] = [x for x in h["a"] if not (isinstance(x, (int, float)) and x == 1)]
OPS.append(("d = a - [1]", "d = a - [1]", minus))
def selrange(h):
    if len(h["a"]) < 2:
        raise Unspecified()
    h["d"] = h["a"][0:2]
OPS.append(("d = a select [0,2]", "if (count a >= 2) then { d = a select [0,2] }", lambda h: h.__setitem__("d", h["a"][0:2]) if len(h["a"]) >= 2 else None))
OPS.append(("d = a apply {_x}", "d = a apply {_x}", lambda h: h.__setitem__("d", list(h["a"]))))
OPS.append(("d = c select {true}", "d = c select {true}", lambda h: h.__setitem__("d", list(h["c"]))))
def dpush(h):
    if h["d"] is None:
        raise Unspecified()
    h["d"].append(99)
OPS.append(("d pushBack 99", "if (!isNil \"d\") then { d pushBack 99 }", lambda h: h["d"].append(99) if h["d"] is not None else None))
def dset(h):
    if h["d"] is not None:
        while len(h["d"]) <= 0:
            h["d"].append(None)
        h["d"][0] = 55
OPS.append(("d set [0,55]", "if (!isNil \"d\") then { d set [0, 55] }", dset))

# self-containment attempts
def mk_ins(expr_container, text, value_of, how):
    def f(h):
        cont = h[expr_container]
        v = value_of(h)
        insert_check(h, cont, v)
        how(cont, v)
    return f
OPS.append(("a pushBack a", "a pushBack a", mk_ins("a", "", lambda h: h["a"], lambda c, v: c.append(v))))
OPS.append(("a set [0,a]", "a set [0, a]", mk_ins("a", "", lambda h: h["a"], lambda c, v: (c.append(None) if not c else None, c.__setitem__(0, v)))))
OPS.append(("a append [a]", "a append [a]", mk_ins("a", "", lambda h: [h["a"]], lambda c, v: c.extend(v))))
OPS.append(("a append [[a]]", "a append [[a]]", mk_ins("a", "", lambda h: [[h["a"]]], lambda c, v: c.extend(v))))
OPS.append(("a pushBack [a]", "a pushBack [a]", mk_ins("a", "", lambda h: [h["a"]], lambda c, v: c.append(v))))
OPS.append(("a pushBack c", "a pushBack c", mk_ins("a", "", lambda h: h["c"], lambda c, v: c.append(v))))
OPS.append(("c pushBack a", "c pushBack a", mk_ins("c", "", lambda h: h["a"], lambda c, v: c.append(v))))
OPS.append(("c pushBack c", "c pushBack c", mk_ins("c", "", lambda h: h["c"], lambda c, v: c.append(v))))
OPS.append(("a pushBackUnique a", "a pushBackUnique a", mk_ins("a", "", lambda h: h["a"], lambda c, v: c.append(v))))
OPS.append(("a set [1,[a]]", "a set [1, [a]]", mk_ins("a", "", lambda h: [h["a"]], lambda c, v: ([c.append(None) for _ in range(2 - len(c))], c.__setitem__(1, v)))))
OPS.append(("m set [k,m]", 'm set ["k", m]', mk_ins("m", "", lambda h: h["m"], lambda c, v: c.__setitem__("k", v))))
OPS.append(("m set [k,[m]]", 'm set ["k", [m]]', mk_ins("m", "", lambda h: [h["m"]], lambda c, v: c.__setitem__("k", v))))
OPS.append(("m set [k,a]", 'm set ["k", a]', mk_ins("m", "", lambda h: h["a"], lambda c, v: c.__setitem__("k", v))))
OPS.append(("a pushBack m", "a pushBack m", mk_ins("a", "", lambda h: h["m"], lambda c, v: c.append(v))))

# the offending element is not the first one: a refusal must not leave the elements before it appended
OPS.append(("a append [7,a]", "a append [7, a]", mk_ins("a", "", lambda h: [7, h["a"]], lambda c, v: c.extend(v))))
OPS.append(("a append [7,[a],8]", "a append [7, [a], 8]", mk_ins("a", "", lambda h: [7, [h["a"]], 8], lambda c, v: c.extend(v))))
OPS.append(("c append [7,m]", "c append [7, m]", mk_ins("c", "", lambda h: [7, h["m"]], lambda c, v: c.extend(v))))
# cycles through BOTH container kinds, entered from the array side with every inserting operator
OPS.append(("a set [0,m]", "a set [0, m]", mk_ins("a", "", lambda h: h["m"], lambda c, v: (c.append(None) if not c else None, c.__setitem__(0, v)))))
OPS.append(("c set [0,[m]]", "c set [0, [m]]", mk_ins("c", "", lambda h: [h["m"]], lambda c, v: (c.append(None) if not c else None, c.__setitem__(0, v)))))
OPS.append(("a pushBack [m]", "a pushBack [m]", mk_ins("a", "", lambda h: [h["m"]], lambda c, v: c.append(v))))
OPS.append(("m set [k,c]", 'm set ["k", c]', mk_ins("m", "", lambda h: h["c"], lambda c, v: c.__setitem__("k", v))))
OPS.append(("m set [k,[a]]", 'm set ["k", [a]]', mk_ins("m", "", lambda h: [h["a"]], lambda c, v: c.__setitem__("k", v))))
# the KEY holds the map
OPS.append(("m set [[m],1]", 'm set [[m], 1]', mk_ins("m", "", lambda h: [h["m"]], lambda c, v: None)))

OPNAMES = [o[0] for o in OPS]
OPBY = {o[0]: o for o in OPS}


def fmt(v):
    if v is None:
        return "nil"
    if isinstance(v, bool):
        return "true" if v else "false"
    if isinstance(v, (int, float)):
        return "%g" % v
    if isinstance(v, list):
        return "[" + ",".join(fmt(x) for x in v) + "]"
    if isinstance(v, dict):
        return "[" + ",".join("[%s,%s]" % ('"%s"' % k, fmt(x)) for k, x in v.items()) + "]"
    return str(v)


OBS = 'diag_log str [a, b, c, if (isNil "d") then {"<nil>"} else {d}, m]'


def expected_obs(h):
    return "[%s,%s,%s,%s,%s]" % (fmt(h["a"]), fmt(h["b"]), fmt(h["c"]), '"<nil>"' if h["d"] is None else fmt(h["d"]), fmt(h["m"]))


def gen(depth):
    def g():
        for p in PATTERNS:
            for d in range(1, depth + 1):
                for seq in itertools.product(OPNAMES, repeat=d):
                    yield [p, list(seq)]
    return g


def check(ws, case):
    p, seq = case
    h = init_heap(p)
    texts = [PATTERNS[p] + " " + OBS]
    exps = [(expected_obs(h), None)]
    states = set()
    stop_at = None
    for i, name in enumerate(seq):
        _, text, f = OPBY[name]
        snapshot = copy.deepcopy(h)
        try:
            f(h)
            kind = "ok"
        except Refused:
            # rebuild h as it was (deepcopy preserves aliasing inside one object graph)
            h = snapshot
            kind = "refused"
        except Unspecified:
            stop_at = i
            break
        texts.append(text)
        exps.append((expected_obs(h), kind))
        states.add(expected_obs(h))
    def run(ts):
        # every operation and every observation is a script of its own on one VM (a refused operation may
        # end its script with an error; the observation still runs)
        full = [ts[0]]
        for t in ts[1:]:
            full += [t, OBS]
        return ws.call({"mode": "eval", "fork": True, "timeout_ms": 8000, "stack_mb": 16, "conf": {"ops": "full"}, "texts": full}, variant="fast")
    r = run(texts)
    info = {"n": 1, "nontrivial": 1, "states": len(states), "transitions": len(texts) - 1, "executions": 1}
    if r["outcome"] != "ok":
        k = r.get("kind", r["outcome"])
        # find the first operation after which the heap can no longer be printed
        first = len(texts) - 1
        for n in range(1, len(texts)):
            if run(texts[:n + 1])["outcome"] != "ok":
                first = n
                break
        return [("C08|%s|%s" % (seq[first - 1], "cyclic-or-crash:" + str(k)),
                 "history %s / %s: %s after %r (printing/comparing a cyclic structure?)" % (p, "; ".join(seq), k, seq[first - 1]), None, case)], info
    raw = r["result"]["items"]
    items = [raw[0]]
    for n in range(1, len(texts)):
        merged = dict(raw[2 * n])
        merged["log"] = raw[2 * n - 1]["log"] + raw[2 * n]["log"]
        items.append(merged)
    for i, (it, (want, kind)) in enumerate(zip(items, exps)):
        got = [m["msg"].split("[DIAG_LOG] ", 1)[1] for m in it["log"] if m["code"] == 60019]
        diags = [m for m in it["log"] if m["lvl"] <= 2]
        opname = seq[i - 1] if i else "init"
        prev = seq[i - 2] if i >= 2 else "start:" + p
        if got != [want]:
            what = "accepted-instead-of-refused" if kind == "refused" else "content"
            return [("C08|%s|%s" % (opname, what), "history %s / %s: after %r variables are %s, reference %s" % (p, "; ".join(seq[:i]), opname, got, want), None, case)], info
        if kind == "refused" and not diags:
            return [("C08|%s|refused-without-diagnostic" % opname, "history %s / %s: %r was refused silently" % (p, "; ".join(seq[:i]), opname), None, case)], info
    return [], info


def spaces(tier):
    return [Space("heap-histories", gen(2 if tier == "quick" else 3), check, variant="fast",
                  describe="operation sequences over %d operations from 5 aliasing patterns" % len(OPS))]
