"""C19 - execution control (start/step/stop/abort) follows its state machine, thread-safe.

Sequential part: from every initial configuration all sequences of control actions up to a length are replayed on a
fresh VM (forked child) and every returned action is checked against the state machine (reported state, return code,
exactly-one-instruction steps, line steps, leave scope, abort discards everything, liveness afterwards).
Concurrent part: a controller thread issues every short action sequence while an executor thread is inside
execute(start); all interleavings at the hooked synchronisation points (guarded SQFVM_VERIF_POINT) up to a preemption
bound are explored by a token-passing scheduler in the driver (CHESS-style iterative context bounding); a separate
free-running pass of the same bodies under ThreadSanitizer keeps unsynchronised accesses visible.
"""
import itertools
from ..engine import Space

PROPERTY = "C19"
LEVEL = "model_checking"
VARIANTS = ["fast", "tsan"]
RULE = ("sequential: 10 initial configurations x all action sequences of length <=4 (quick) / <=5 (thorough) over 6 actions; states = distinct "
        "(runtime state, frame depths/positions) reached, transitions = actions; concurrent: executor start on 4 script kinds (straight, loop, erroring, all scripts asleep under a ticking virtual clock) x all controller "
        "sequences of <=2 actions over 5 actions, all schedules with <=2 (quick) / <=3 (thorough) preemptions at the hook points; "
        "states = scheduling points visited, transitions = executions (complete schedules)")
ASSUMPTIONS = [
    "interleavings are explored at the hooked points under sequential consistency (x86-64); weaker memory orderings and spurious failure of "
    "compare_exchange_weak are not modelled",
    "`bounded number of instructions` for stop/abort to take effect: <= 2 instructions and <= 3 scheduler turns (a turn of a sleeping script executes nothing) after the action returned ok",
    "free-running TSan pass: races are reported by happens-before analysis whenever both accesses occur; 20 repetitions cover both orders of the start barrier",
]
DEADLINE_S = {"quick": 540, "thorough": 1700}

ACTIONS = ["start", "stop", "abort", "assembly_step", "line_step", "leave_scope"]
INITS = {
    "no-script": [],
    "straight": ["a = 1; b = 2;\nc = 3;\nd = 4; e = 5"],
    "nested": ["a = 1;\ncall {\n  b = 2;\n  call {\n    c = 3;\n    d = 4\n  };\n  e = 5\n};\nf = 6"],
    "erroring": ['a = 1;\nb = 1 + "x";\nc = 3'],
    "two-scripts": ["a = 1;\nb = 2", "c = 3;\nd = 4"],
    # halted (by 9 assembly steps) inside a block from which one step pops two frames at once: the block is the last
    # statement of the called function / an exitWith block; and a block followed by another statement as control
    "in-tail-block": ["call { a = 1; if (true) then { b = 2; c = 3 } };\nz = 9"],
    "in-exitwith-block": ["call { a = 1; if (true) exitWith { b = 2; c = 3 }; y = 8 };\nz = 9"],
    "in-inner-block": ["call { a = 1; if (true) then { b = 2; c = 3 }; y = 8 };\nz = 9"],
    "finished": ["a = 1"],       # plus an initial start
    "failed": ['a = 1 + "x"'],   # plus an initial start
}
PRE = {"finished": ["start"], "failed": ["start"], "in-tail-block": ["assembly_step"] * 9, "in-exitwith-block": ["assembly_step"] * 9,
       "in-inner-block": ["assembly_step"] * 9}
RES = {"invalid": -2, "empty": -1, "ok": 0, "action_error": 1, "runtime_error": 2}


def gen_seq(maxlen):
    def g():
        for init in INITS:
            for n in range(1, maxlen + 1):
                for seq in itertools.product(ACTIONS, repeat=n):
                    yield [init, list(seq)]
    return g


def top_line(vm):
    if not vm["contexts"]:
        return None
    fl = vm["contexts"][0]["frame_list"]
    return fl[0].get("next_line") if fl else None


def depth(vm):
    return vm["contexts"][0]["frames"] if vm["contexts"] else 0


def check_seq(ws, case):
    init, seq = case
    steps = [{"op": "vm", "id": 0, "ops": "full"}]
    for i, t in enumerate(INITS[init]):
        steps.append({"op": "sqf", "id": 0, "text": t, "path": "s%d.sqf" % i})
    for a in PRE.get(init, []):
        steps.append({"op": "exec", "id": 0, "action": a})
    steps.append({"op": "state", "id": 0})
    first = len(steps)
    for a in seq:
        steps.append({"op": "exec", "id": 0, "action": a, "detail": True})
    # liveness probe: bring the VM back to empty with documented actions (start, then abort), then run a fresh script
    steps.append({"op": "exec", "id": 0, "action": "start"})     # let whatever is still loaded run (it may fail) ...
    steps.append({"op": "exec", "id": 0, "action": "abort"})     # ... and discard what is left
    steps.append({"op": "sqf", "id": 0, "text": 'diag_log "alive"', "path": "probe.sqf"})
    steps.append({"op": "exec", "id": 0, "action": "start"})
    r = ws.call({"mode": "steps", "fork": True, "timeout_ms": 15000, "clock": {"tick_us": 1}, "steps": steps}, variant="fast")
    info = {"n": 1, "nontrivial": 1 if len(seq) > 1 else 0, "transitions": len(seq), "executions": 1}
    if r["outcome"] != "ok":
        from .c09 import kind_class
        kind = r.get("kind", r["outcome"]) if r["outcome"] == "crash" else r["outcome"]
        # locate the crashing action
        culprit, prev = seq[-1], "start-of-history"
        for n in range(1, len(seq) + 1):
            r1 = ws.call({"mode": "steps", "fork": True, "timeout_ms": 15000, "clock": {"tick_us": 1}, "steps": steps[:first + n]}, variant="fast")
            if r1["outcome"] != "ok":
                culprit = seq[n - 1]
                prev = seq[n - 2] if n > 1 else "init:" + init
                break
        return [("C19|seq|%s|after=%s|%s" % (culprit, prev, kind_class(kind)), "init %s, actions %r: %s at %r (%s)" % (init, seq, kind, culprit, r.get("frame", "")[:100]), None, case)], info
    res = r["result"]["steps"]
    vm = res[first - 1]["vm"]
    states = set()
    for i, a in enumerate(seq):
        st = res[first + i]
        before, after = vm, st["vm"]
        states.add((after["state"], tuple((c["frames"], tuple(f["pos"] for f in c["frame_list"])) for c in after["contexts"])))
        ctx = "init=%s|prev=%s" % (init, seq[i - 1] if i else "none")
        tag = "init %s, actions %r, action %d (%s)" % (init, seq, i, a)
        def viol(kind, what):
            return [("C19|seq|%s|%s|state-before=%s" % (a, kind, before["state"]), "%s: %s" % (tag, what), None, case)], info
        if after["state"] not in ("empty", "halted", "halted_error"):
            return viol("state-after-return", "reported state after the action returned is %r" % after["state"])
        rc = st["r"]
        has_script = bool(before["contexts"])
        if a == "stop":
            if rc != RES["action_error"]:
                return viol("wrong-return", "stop on a VM that is not running returned %d, expected action_error" % rc)
        elif a == "abort":
            if before["state"] in ("halted", "halted_error"):
                if rc != RES["ok"] or after["contexts"] or after["state"] != "empty":
                    return viol("abort-on-halted", "abort on a %s VM returned %d, state %s, %d scripts left" % (before["state"], rc, after["state"], len(after["contexts"])))
            elif rc != RES["action_error"]:
                return viol("wrong-return", "abort on an empty VM returned %d, expected action_error" % rc)
        elif a == "assembly_step":
            if has_script and st["instr"] != 1 and not (st["instr"] == 0 and rc in (RES["empty"],)):
                return viol("step-count", "assembly step executed %d instructions" % st["instr"])
            if not has_script and st["instr"] != 0:
                return viol("step-count", "assembly step on a VM without script executed %d instructions" % st["instr"])
        elif a == "line_step":
            if has_script:
                l0 = top_line(before)
                l1 = top_line(after)
                if st["instr"] < 1 and rc == RES["ok"]:
                    return viol("line-step-no-progress", "line step executed no instruction")
                if rc == RES["ok"] and after["contexts"] and l0 is not None and l1 == l0 and depth(after) >= depth(before) and st["instr"] < 40:
                    return viol("line-step-stopped-on-same-line", "line step from line %s stopped with the next instruction still on line %s after %d instructions" % (l0, l1, st["instr"]))
                if len(before["contexts"]) == 1 and before["state"] != "halted_error" and l0 is not None:
                    # differential oracle: a line step = assembly steps until the instruction to be executed next is on another line
                    # than the one the step started on (or the script is over)
                    ref = steps[:first + i] + [{"op": "exec", "id": 0, "action": "assembly_step", "detail": True} for _ in range(40)]
                    r2 = ws.call({"mode": "steps", "fork": True, "timeout_ms": 15000, "clock": {"tick_us": 1}, "steps": ref}, variant="fast")
                    if r2["outcome"] == "ok":
                        acc, n_ref = 0, None
                        for s2 in r2["result"]["steps"][first + i:]:
                            acc += s2["instr"]
                            v2 = s2["vm"]
                            if s2["r"] != RES["ok"] or not v2["contexts"] or top_line(v2) != l0 or depth(v2) < depth(before):
                                n_ref = acc
                                break
                        if n_ref is not None and rc in (RES["ok"], RES["empty"]) and st["instr"] != n_ref and depth(after) >= depth(before):
                            return viol("line-step-length", "line step from line %s executed %d instructions; stepping reaches another line after %d" % (l0, st["instr"], n_ref))
        elif a == "leave_scope":
            if has_script and rc == RES["ok"] and after["contexts"] and depth(after) >= depth(before) and depth(before) > 1:
                return viol("leave-scope-depth", "leave scope returned with frame depth %d (before %d)" % (depth(after), depth(before)))
            if has_script and before["state"] != "halted_error":
                # differential oracle: leave scope = assembly steps until the frame depth is below the one it started at for the
                # first time (or the script is over) - assembly step has its own exact oracle (one instruction)
                d0 = depth(before)
                ref = steps[:first + i] + [{"op": "exec", "id": 0, "action": "assembly_step", "detail": True} for _ in range(60)]
                r2 = ws.call({"mode": "steps", "fork": True, "timeout_ms": 15000, "clock": {"tick_us": 1}, "steps": ref}, variant="fast")
                if r2["outcome"] == "ok":
                    n_ref, vm_ref, acc = None, None, 0
                    for k, s2 in enumerate(r2["result"]["steps"][first + i:]):
                        v2 = s2["vm"]
                        acc += s2["instr"]
                        if s2["r"] not in (RES["ok"],) or not v2["contexts"] or depth(v2) < d0 or len(v2["contexts"]) != len(before["contexts"]):
                            n_ref, vm_ref = acc, v2
                            break
                    if n_ref is not None and len(before["contexts"]) == 1 and rc in (RES["ok"], RES["empty"]):
                        shape = lambda v: [(c["frames"], [f["pos"] for f in c["frame_list"]]) for c in v["contexts"] if c["frames"] > 0]   # finished scripts do not count
                        if st["instr"] != n_ref or shape(after) != shape(vm_ref):
                            return viol("leave-scope-overruns-or-stops-early", "leave scope from depth %d executed %d instructions and ended at %r; stepping leaves the scope after %d instructions at %r" % (
                                d0, st["instr"], shape(after), n_ref, shape(vm_ref)))
        elif a == "start":
            if has_script:
                if rc not in (RES["empty"], RES["ok"], RES["runtime_error"]):
                    return viol("wrong-return", "start with scripts loaded returned %d" % rc)
                if rc == RES["empty"] and (after["contexts"] or after["state"] != "empty"):
                    return viol("start-incomplete", "start returned empty but %d scripts are left, state %s" % (len(after["contexts"]), after["state"]))
            else:
                if after["state"] == "halted_error" or rc in (RES["invalid"],):
                    return viol("start-on-empty-vm", "start on a VM without scripts returned %d and left state %s" % (rc, after["state"]))
        vm = after
    # second liveness probe: a script loaded after the history is reached by STEPPING too (the first probe uses start)
    if "start" not in seq[-1:] and init not in ("erroring", "failed"):
        st2 = steps[:first + len(seq)] + [{"op": "sqf", "id": 0, "text": 'diag_log "alive2"', "path": "probe2.sqf"}] + [{"op": "exec", "id": 0, "action": "assembly_step"} for _ in range(60)]
        r3 = ws.call({"mode": "steps", "fork": True, "timeout_ms": 15000, "clock": {"tick_us": 1}, "steps": st2}, variant="fast")
        if r3["outcome"] == "ok":
            rcs = [x["r"] for x in r3["result"]["steps"][first + len(seq) + 1:]]
            if RES["runtime_error"] not in rcs and not any(m["code"] == 60019 and "alive2" in m["msg"] for m in r3["result"]["log"]):
                return [("C19|seq|liveness-by-stepping|after=%s" % seq[-1], "init %s, actions %r: a script loaded afterwards is never executed by 60 assembly steps (returns %r...)" % (
                    init, seq, rcs[:4]), None, case)], dict(info, states=len(states))
    probe = res[-1]
    alive = any(m["code"] == 60019 and "alive" in m["msg"] for m in r["result"]["log"])
    if not alive or probe["r"] != RES["empty"]:
        return [("C19|seq|liveness|after=%s" % seq[-1], "init %s, actions %r: afterwards abort + a fresh script + start returned %d, script ran: %s (state %s)" % (
            init, seq, probe["r"], alive, probe["state"]), None, case)], dict(info, states=len(states))
    return [], dict(info, states=len(states))


# ---------------------------------------------------------------- concurrent
CTL_ACTIONS = ["stop", "abort", "start", "assembly_step", "eval"]
SCRIPTS = {
    "straight": "a = 1; b = 2; c = 3; d = 4",
    "loop": "for \"_i\" from 1 to 3 do { x = _i }",
    "erroring": 'a = 1; b = 1 + "x"; c = 3',
    # every script of the VM is asleep for some scheduler rounds (virtual clock: 100 us per query, ~30 scheduler rounds, see TICKS)
    "all-asleep": '[] spawn { sleep 0.003; z = 1; z = 2; z = 3; z = 4 }; a = 1',
}
TICKS = {"all-asleep": 100}


def gen_conc(maxctl):
    def g():
        for s in SCRIPTS:
            for n in range(1, maxctl + 1):
                for seq in itertools.product(CTL_ACTIONS, repeat=n):
                    yield [s, list(seq)]
    return g


def check_conc(ws, case, bound=2):
    script, ctl = case
    r = ws.call({"mode": "mt", "fork": True, "timeout_ms": 240000, "what": "control", "script": SCRIPTS[script], "controller": ctl, "bound": bound,
                 "max_executions": 200000, "tick_us": TICKS.get(script, 0)}, variant="fast")
    if r["outcome"] != "ok":
        from .c09 import kind_class
        kind = r.get("kind", r["outcome"]) if r["outcome"] == "crash" else r["outcome"]
        return [("C19|conc|%s|%s" % ("+".join(ctl), kind_class(kind)), "script %s controller %r: explorer failed: %s %s" % (script, ctl, kind, r.get("what", "")), None, case)], {"n": 1}
    res = r["result"]
    info = {"n": 1, "nontrivial": 1, "states": res["points"], "transitions": res["executions"], "executions": res["executions"],
            "outcomes": res["distinct_outcomes"], "capped": 1 if res.get("capped") else 0}
    if res["violations"]:
        v = res["violations"][0]
        return [("C19|conc|%s|%s" % (v["kind"], "+".join(sorted(set(ctl)))), "script %s controller %r (%d executions, bound %d): %s ; schedule %s" % (
            script, ctl, res["executions"], bound, v["what"], v.get("schedule")), None, case)], info
    return [], info


def check_conc3(ws, case):
    return check_conc(ws, case, 3)


def gen_tsan():
    for s in SCRIPTS:
        for seq in itertools.product(CTL_ACTIONS, repeat=1):
            yield [s, list(seq)]
        yield [s, ["stop", "abort"]]
        yield [s, ["eval", "stop"]]
        yield [s, ["eval", "abort"]]
        yield [s, ["start", "eval"]]
        yield [s, ["eval", "eval"]]


def check_tsan(ws, case):
    script, ctl = case
    r = ws.call({"mode": "mt", "fork": True, "timeout_ms": 120000, "what": "control-free", "script": SCRIPTS[script], "controller": ctl,
                 "repeat": 20}, variant="tsan")
    info = {"n": 1, "nontrivial": 1, "executions": 20, "states": 20, "transitions": 20}
    err = r.get("stderr", "")
    if r["outcome"] not in ("ok",) and "ThreadSanitizer" not in err:
        return [("C19|tsan|%s|%s" % ("+".join(ctl), r.get("kind", r["outcome"])), "free-running pass failed: %s" % r.get("kind", r["outcome"]), None, case)], info
    races = parse_tsan(err)
    viols = []
    for field, what in races[:3]:
        viols.append(("C19|tsan|data-race|%s" % field, "script %s controller %r: %s" % (script, ctl, what), None, case))
    return viols, info


def parse_tsan(err):
    """-> list of (racing location key, description) for reports whose stacks are inside the repo's runtime."""
    out = []
    for rep in err.split("WARNING: ThreadSanitizer: data race")[1:]:
        lines = rep.split("\n")
        frames = [l.strip() for l in lines if l.strip().startswith("#") and "/src/" in l and "/harness/" not in l]
        if not frames:
            continue
        import re
        m = re.search(r"Location is global '([^']+)'", rep)
        if m:
            key = "global:" + m.group(1)
        else:
            # order-independent: the functions on top of the two racing stacks (first in-repo frame of each stack)
            tops = []
            for block in rep.split("\n\n")[:2]:
                fr = [l.strip() for l in block.split("\n") if l.strip().startswith("#") and "/src/" in l and "/harness/" not in l]
                if fr:
                    body = fr[0].split(" ", 1)[1] if " " in fr[0] else fr[0]
                    tops.append(body.split(" /")[0].split("(")[0].strip()[-60:])
            key = "+".join(sorted(set(tops))) or "unknown"
        f0 = frames[0]
        out.append((key, (frames[0] + " vs " + (frames[1] if len(frames) > 1 else "?"))[:300]))
    seen, uniq = set(), []
    for k, w in out:
        if k not in seen:
            seen.add(k)
            uniq.append((k, w))
    return uniq


def spaces(tier):
    q = tier == "quick"
    return [Space("sequential", gen_seq(4 if q else 5), check_seq, variant="fast", describe="initial configurations x action sequences"),
            Space("concurrent", gen_conc(1 if q else 2), check_conc if q else check_conc3, variant="fast", describe="executor vs controller, preemption-bounded exploration"),
            Space("tsan-free-running", gen_tsan, check_tsan, variant="tsan", describe="same bodies free-running under ThreadSanitizer")]
