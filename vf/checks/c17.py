"""C17 - PBO archives are read faithfully; damaged ones are rejected safely.

Archives produced by an independent packer (vf/ref/pbo.py) for all file sets of <=2/3 entries over a name x size x
property alphabet are opened with the real reader and every entry is read back through the virtual file system under
the PBO's prefix. Then every truncation point, every byte of the header / property / table region replaced by four
values, every size field replaced by six values, and absent / directory / unreadable paths are enumerated; each case runs
in a forked ASan child with an allocation limit, and the scratch directory is hashed before and after.
"""
import hashlib, itertools, os, shutil, stat
from ..engine import Space
from ..ref import pbo as PBO
from .. import build as B

PROPERTY = "C17"
LEVEL = "fault_enumeration"
VARIANTS = ["asan"]
RULE = ("archives: file sets of <=2 (quick) / <=3 (thorough) entries over 8 names (two pairs differing in letter case only, two nested names repeating a top-level name) x 6 sizes x 3 property sets (with and without trailer), plus header strings of 254..700 bytes; faults per "
        "archive: every truncation length, every header/property/table byte x {00,01,7F,FF}, every size field x 6 values, missing / directory path; a case = (archive, fault); non-trivial = every faulted case and every archive with >=1 entry; distinct by case")
ASSUMPTIONS = [
    "content bytes are arbitrary binary (all 256 byte values occur); entry names use backslash separators as in real PBOs",
    "for byte / size-field corruptions only safety is judged (no crash, no read past EOF, bounded allocation, no file created or modified): "
    "the format has no per-entry checksum, so shifted contents cannot be told from valid ones; for truncations every entry that is still read "
    "must be byte-identical to what was packed",
    "allocation limit per case: 64 MiB (ASan max_allocation_size_mb)",
]
DEADLINE_S = {"quick": 480, "thorough": 1500}

SCR = os.path.join(B.BUILD, "scratch", "c17")
NAMES = ["a.sqf", "A.sqf", "d\\b.sqf", "D\\b.sqf", "d\\a.sqf", "fix\\c.sqf", "config.cpp", "n" * 200 + ".sqf"]   # incl. names that differ in letter case only and nested names that repeat a top-level file / directory name
SIZES = [0, 1, 255, 256, 257, 5000]
PROPS = {"prefix": [("prefix", "pre\\fix")], "prefix+2": [("prefix", "x"), ("version", "1.0"), ("author", "me")], "none": []}
# header strings around and beyond the reader's 256-byte chunk size (names, property keys, property values, the prefix)
LONG_LENS = [254, 255, 256, 257, 300, 511, 512, 513, 700]
for _l in LONG_LENS:
    PROPS["longvalue-%d" % _l] = [("prefix", "p"), ("k", "v" * _l)]
    PROPS["longkey-%d" % _l] = [("prefix", "p"), ("k" * _l, "v")]
    PROPS["longprefix-%d" % _l] = [("prefix", "d\\" + "p" * (_l - 2))]


def content(n, seed):
    return bytes(((i * 7 + seed * 13) % 256) for i in range(n))


def gen_long():
    for l in LONG_LENS:
        for tr in (True, False):
            for pk in ("prefix", "none"):
                # an ordinary entry before and after the long-named one
                yield [[pk, ["a.sqf", "x" * (l - 4) + ".sqf", "z.sqf"], [1, 257, 3]], ["intact", tr]]
                yield [[pk, ["d\\" * ((l - 5) // 2) + "y" * ((l - 5) % 2) + "e.sqf"], [256]], ["intact", tr]]
            for kind in ("longvalue", "longkey", "longprefix"):
                yield [["%s-%d" % (kind, l), ["a.sqf", "b.sqf"], [5, 0]], ["intact", tr]]


def archives(maxfiles, sizes):
    for pk in ("prefix", "prefix+2", "none"):
        for nf in range(0, maxfiles + 1):
            for names in itertools.combinations(NAMES, nf):
                for szs in itertools.product(sizes, repeat=nf):
                    yield [pk, list(names), list(szs)]


def build(arch, trailer=True):
    pk, names, szs = arch
    files = [(n, content(s, i + 1)) for i, (n, s) in enumerate(zip(names, szs))]
    blob, layout = PBO.pack(PROPS[pk], files, trailer)
    return blob, layout, files


def gen_intact(maxfiles, sizes):
    def g():
        for a in archives(maxfiles, sizes):
            for tr in (True, False):
                yield [a, ["intact", tr]]
    return g


def gen_faults(maxfiles, sizes, step, only_fields_above=None):
    """only_fields_above=k: archives with more than k entries get the size-field faults only (keeps the quick tier short while
    still corrupting a length field next to other non-empty entries)."""
    def g():
        for a in archives(maxfiles, sizes):
            if not a[1]:
                continue
            blob, layout, files = build(a)
            full = only_fields_above is None or len(files) <= only_fields_above
            for n in range(0, len(blob), step) if full else ():
                yield [a, ["trunc", n]]
            hdr_end = layout["table"][1]
            for pos in range(0, hdr_end) if full else ():
                for v in (0x00, 0x01, 0x7F, 0xFF):
                    if blob[pos] != v:
                        yield [a, ["byte", pos, v]]
            for i in range(len(files)):
                for fld in ("size_field", "orig_size_field"):
                    s, e = layout[(fld, i)]
                    for v in (0, 1, len(blob), len(blob) + 1, 2 ** 31 - 1, 2 ** 32 - 1):
                        yield [a, ["field", s, v]]
        yield [["prefix", ["a.sqf"], [1]], ["absent"]]
        yield [["prefix", ["a.sqf"], [1]], ["directory"]]
    return g


def tree_hash(d):
    h = hashlib.sha256()
    for root, dirs, files in sorted(os.walk(d)):
        dirs.sort()
        for f in sorted(files):
            p = os.path.join(root, f)
            h.update(p.encode())
            try:
                h.update(open(p, "rb").read())
            except OSError:
                h.update(b"<unreadable>")
        for dd in dirs:
            h.update(os.path.join(root, dd).encode())
    return h.hexdigest()


def check(ws, case):
    arch, fault = case
    blob, layout, files = build(arch, fault[1] if fault[0] == "intact" else True)
    d = os.path.join(SCR, "w%d" % os.getpid())
    shutil.rmtree(d, ignore_errors=True)
    os.makedirs(d)
    path = os.path.join(d, "t.pbo")
    data = blob
    if fault[0] == "trunc":
        data = blob[:fault[1]]
    elif fault[0] == "byte":
        data = blob[:fault[1]] + bytes([fault[2]]) + blob[fault[1] + 1:]
    elif fault[0] == "field":
        data = blob[:fault[1]] + int(fault[2]).to_bytes(4, "little") + blob[fault[1] + 4:]
    if fault[0] == "absent":
        pass
    elif fault[0] == "directory":
        os.makedirs(path)
    else:
        with open(path, "wb") as f:
            f.write(data)
        if fault[0] == "unreadable":
            os.chmod(path, 0)
    prefix = dict(PROPS[arch[0]]).get("prefix", "")
    vpaths = ["/" + (prefix + "\\" + n).replace("\\", "/") for n, _ in files]
    before = tree_hash(d)
    r = ws.call({"mode": "pbo", "fork": True, "timeout_ms": 10000, "path": path, "read": vpaths}, variant="asan", max_alloc_mb=64, rss_mb=1024)
    after = tree_hash(d)
    if fault[0] == "unreadable":
        os.chmod(path, stat.S_IRUSR | stat.S_IWUSR)
    info = {"n": 1, "nontrivial": 1 if (fault[0] != "intact" or files) else 0}
    ftag = fault[0]
    region = ""
    if fault[0] in ("byte", "field", "trunc"):
        pos = fault[1]
        for name in ("header", "props", "table", "data"):
            s, e = layout[name]
            if s <= pos < e:
                region = name
        region = region or "trailer"
    if before != after:
        return [("C17|%s|modified-filesystem" % ftag, "archive %r fault %r: the scratch directory changed (file created or modified)" % (arch, fault), None, case)], info
    if r["outcome"] != "ok":
        from .c09 import kind_class
        kind = r.get("kind", r["outcome"]) if r["outcome"] == "crash" else r["outcome"]
        return [("C17|%s|%s|%s" % (ftag, region, kind_class(kind)), "archive %r fault %r: %s in %s" % (arch, fault, kind, r.get("frame", "")[:120]), None, case)], info
    res = r["result"]
    if fault[0] == "intact":
        if not res["good"]:
            return [("C17|intact|rejected", "well-formed archive %r rejected" % (arch,), None, case)], info
        if [tuple(a) for a in res["attributes"]] != [tuple(p) for p in PROPS[arch[0]]]:
            return [("C17|intact|properties-differ", "archive %r: properties %r, packed %r" % (arch, res["attributes"], PROPS[arch[0]]), None, case)], info
        got_files = [(f["name"], f["size"]) for f in res["files"]]
        if got_files != [(n, len(c)) for n, c in files]:
            return [("C17|intact|entry-list-differs", "archive %r: entries %r, packed %r" % (arch, got_files[:4], [(n[:20], len(c)) for n, c in files]), None, case)], info
        if prefix:
            for (n, c), rd in zip(files, res["reads"]):
                if not rd["found"] or rd.get("content", "").encode("latin-1") != c:
                    return [("C17|intact|content-differs|size=%d" % len(c), "archive %r: entry %r read through the VFS differs from the packed bytes (found=%s, %d bytes)" % (
                        arch, n[:30], rd["found"], len(rd.get("content", ""))), None, case)], info
        return [], info
    if fault[0] in ("absent", "directory", "unreadable"):
        if res["good"]:
            return [("C17|%s|accepted" % ftag, "%s path reported as a good archive" % ftag, None, case)], info
        return [], info
    if fault[0] == "trunc" and res.get("good") and prefix:
        for (n, c), rd in zip(files, res.get("reads", [])):
            if rd["found"] and rd.get("content", "") != "" and rd["content"].encode("latin-1") != c:
                return [("C17|trunc|%s|damaged-entry-exposed" % region, "archive %r truncated to %d bytes: entry %r is served with %d bytes that differ from the packed %d bytes" % (
                    arch, fault[1], n[:30], len(rd["content"]), len(c)), None, case)], info
    return [], info


def spaces(tier):
    q = tier == "quick"
    return [Space("intact", gen_intact(2 if q else 3, SIZES if not q else [0, 1, 256, 5000]), check, variant="asan", describe="well-formed archives read back"),
            Space("long-header-strings", gen_long, check, variant="asan",
                  describe="entry names, property keys / values and prefixes of 254..700 bytes (the reader scans strings in 256-byte chunks)"),
            Space("faults", gen_faults(2, [1, 257] if q else [0, 1, 257], 1, 1 if q else None), check, variant="asan",
                  describe="every truncation point, header-region byte x4, size field x6, absent/directory/unreadable")]
