"""C13 - preprocessor output equals the reference expansion; strings are inviolate.

Source texts are assembled from a header of macro definitions, an optional conditional wrapper and a sequence of
use-segments; every text is preprocessed by the real preprocessor and compared with the reference expander
(vf/ref/preproc.py): byte-for-byte for texts without directive / macro / comment, token-for-token outside
strings and byte-for-byte inside string literals otherwise. Three invariants are checked directly as well.
"""
import itertools, os
from ..engine import Space
from ..ref import preproc as P
from .. import build as B

PROPERTY = "C13"
LEVEL = "exploration"
VARIANTS = ["fast"]
RULE = ("texts = header (12 macro-definition sets) x conditional wrapper (6) x sequences of <=2 (quick) / <=3 (thorough) use-segments from "
        "a 44-segment alphabet (plain tokens, identifiers with a macro name as prefix/suffix/infix, strings containing macro names / "
        "comment markers / directives / doubled quotes, comments, continuations, macro uses with nested calls, brackets, strings and empty "
        "arguments); plus #include of a generated file; non-trivial = text contains a macro use or directive; distinct by text")
ASSUMPTIONS = [
    "outside the alphabet (not fixed by the statement): CR characters, nested conditionals, macro names passed as arguments to # / ## "
    "(whether they are expanded first), single-quoted strings, multi-line macro calls",
    "newline counts are not compared here (C14 judges line bookkeeping)",
]
DEADLINE_S = {"quick": 420, "thorough": 1500}

HEADERS = [
    "",
    "#define A 1\n",
    "#define A\n",
    "#define A 1\n#define B A + 2\n",
    "#define F(a,b) a + b\n",
    "#define A 1\n#define F(a,b) a + b\n#define G(a) F(a,A)\n",
    "#define S(a) #a\n#define C(a,b) a##b\n",
    "#define N(a) [a]\n#define F(a,b) (a) * b\n",
    '#define Q "A"\n#define A 1\n',
    "#define A 1\n#undef A\n",
    "#define A 1\n#define A 2\n",
    "#define L(a) a \\\n + 1\n#define A 9\n",
]
USES = ["x", "A", "AB", "A_", "xA", "_A", "A1", "B", "B_B", '"A"', '"a // b"', '"/* c */"', '"#define A 2"', '"q""A""q"', '"F(1,2)"',
        "// A comment\n", "/* A */", "x /* A\n B */ y", "y // F(1,2)\n", "F(1,2)", "F((1,2),3)", "F([1,2],3)", 'F("a,b",c)', "F(,x)", "F(A,B)",
        "F(G(1),2)", "G(3)", "G(G(1))", "S(x)", "S(a b)", "C(x,y)", "C(x,1)", "N(F(1,2))", "N(N(1))", "Q", "F", "A(1)", "x \\\n y", '"s \\\n t"',
        "L(2)", "A;B", "[A,B]", "{A}", "(A)"]
CONDS = [None, ("#ifdef A\n", "#endif\n"), ("#ifndef A\n", "#endif\n"), ("#ifdef A\n", "#else\nother A\n#define Z 6\n#endif\nZ\n"),
         ("#ifndef A\n#define Z 5\n", "#else\nelse A\n#endif\nZ\n"), ("#ifdef NOPE\n#define A 7\n#undef F\n", "#endif\nA F(1,2)\n")]
BATCH = 300


def gen(maxuses):
    def g():
        buf = []
        for h in HEADERS:
            for c in CONDS:
                for n in range(1, maxuses + 1):
                    for us in itertools.product(USES, repeat=n):
                        body = " ".join(us) + "\n"
                        text = h + (c[0] + body + c[1] if c else body)
                        buf.append(text)
                        if len(buf) >= BATCH:
                            yield buf
                            buf = []
        if buf:
            yield buf
    return g


# a parameter of a function-like macro carries the name of a macro (defined before or after it, or only in the `else`
# part): inside the body the parameter wins
SHADOW = [
    # (definitions, number of parameters of W, does the body use # / ##)
    ("#define A 1\n#define W(A) [A]\n", 1, False),
    ("#define W(A) [A]\n#define A 1\n", 1, False),
    ("#define W(B) [B] A\n#define B 7\n#define A 1\n", 1, False),
    ("#define W(A,B) A - B\n#define B 7\n", 2, False),
    ("#define A 1\n#define W(A) #A A##A\n#define B 3\n", 1, True),
    ("#define W(A) G(A)\n#define G(A) <A>\n#define A 9\n#define B 4\n", 1, False),
    ("#define A 1\n#define W(A) [A]\n#undef A\n", 1, False),
    ("#define W(x,A) x A\n#define x 2\n#define B x\n", 2, False),
    ("#define B 3\n#define W(A,B) G(B) G(A)\n#define G(B) <B>\n#define A 9\n", 2, False),
]
SHADOW_USES = {1: ["W(5)", "W(A)", "W(B)", "W(W(5))", "W((A))", 'W("A")'], 2: ["W(5,6)", "W(B,A)", "W(A,5)", "W(W(5,6),7)", 'W("A","B")'],
               0: ["A", "B", "G(B)", "G(5)"]}


def gen_shadow(maxuses):
    def g():
        buf = []
        for h, arity, pasting in SHADOW:
            # macro names / strings handed to # and ## are outside the alphabet (see ASSUMPTIONS)
            uses = [u for u in SHADOW_USES[arity] if not (pasting and ("A" in u[2:] or "B" in u[2:] or "W" in u[2:]))] + [u for u in SHADOW_USES[0] if "G(" not in u or "G(" in h]
            for n in range(1, maxuses + 1):
                for us in itertools.product(uses, repeat=n):
                    buf.append(h + " ".join(us) + "\n")
                    if len(buf) >= BATCH:
                        yield buf
                        buf = []
        if buf:
            yield buf
    return g


INC_DIR = os.path.join(B.BUILD, "scratch", "c13")


def gen_include():
    incs = ["#define A 1\nfrom_inc A\n", "x\n#define F(a,b) a - b\n", '"str A" // c\n', "#ifdef A\nhas A\n#endif\n", "",
            # 5: guarded common header; 6, 7: two headers that both include it (diamond); 8: a header meant to be included repeatedly
            "#ifndef GUARD\n#define GUARD\ncommon A\n#endif\n", '#include "/inc5.hpp"\nfrom6\n', '#include "/inc5.hpp"\nfrom7\n', "tval T_VAL\n"]
    def g():
        buf = []
        for k, inc in enumerate(incs):
            for pre in ("", "#define A 5\n", "before A\n"):
                for post in ("A F(1,2)\n", "after\n", '"A"\n'):
                    buf.append([pre + '#include "/inc%d.hpp"\n' % k + post, k])
        # a file that was included and closed earlier in the same run is included again (diamond, plain repetition, template header)
        for pre in ("", "#define A 5\n"):
            buf.append([pre + '#include "/inc6.hpp"\n#include "/inc7.hpp"\nafter A\n', -1])
            buf.append([pre + '#include "/inc0.hpp"\nmid\n#include "/inc0.hpp"\nafter A\n', -1])
            buf.append([pre + '#include "/inc5.hpp"\n#include "/inc5.hpp"\n#include "/inc6.hpp"\nafter\n', -1])
            buf.append([pre + '#define T_VAL 1\n#include "/inc8.hpp"\n#undef T_VAL\n#define T_VAL 2\n#include "/inc8.hpp"\nafter T_VAL\n', -1])
        yield buf
    return g, incs


def features(text):
    f = []
    for name, pat in (("stringify", "#a"), ("concat", "##"), ("continuation", "\\\n"), ("block-comment", "/*"), ("line-comment", "//"),
                      ("ifdef", "#if"), ("undef", "#undef"), ("fn-macro", "(a"), ("string", '"'), ("include", "#include")):
        if pat in text:
            f.append(name)
    return "+".join(f) or "plain"


def judge(text, out, ok, files=None):
    if not ok:
        return "preprocess-failed", "preprocessing failed"
    exp = P.preprocess(text, files or {})
    plain = not any(x in text for x in ("#", "//", "/*", "\\\n")) and not any(m in text for m in ())
    et, gt = P.tokens(exp), P.tokens(out)
    if et != gt:
        i = 0
        while i < len(et) and i < len(gt) and et[i] == gt[i]:
            i += 1
        kind = "string-altered" if (i < len(et) and et[i].startswith('"')) or (i < len(gt) and gt[i].startswith('"')) else "tokens-differ"
        return kind, "token %d: got %r expected %r (output %r)" % (i, gt[i] if i < len(gt) else "<end>", et[i] if i < len(et) else "<end>", out[-120:])
    if plain:
        body = "\n".join(l for l in out.split("\n") if not l.startswith("#line"))
        if body.strip("\n") != text.strip("\n"):
            return "plain-text-not-verbatim", "text without directive/macro/comment was changed: %r -> %r" % (text, body)
    return None, ""


def check(ws, batch):
    r = ws.call({"mode": "pp", "cases": [{"text": t} for t in batch]}, variant="fast")
    if r["outcome"] != "ok":
        viols = []
        for t in batch:
            r1 = ws.call({"mode": "pp", "fork": True, "timeout_ms": 5000, "cases": [{"text": t}]}, variant="fast")
            if r1["outcome"] != "ok":
                viols.append(("C13|crash|" + features(t), "preprocessor crashed/hung on %r: %s" % (t, r1.get("kind", r1["outcome"])), None, [t]))
        return viols, {"n": len(batch)}
    viols = []
    nontrivial = 0
    for t, it in zip(batch, r["result"]["items"]):
        if "#" in t or any(u in t for u in ("A", "B", "F(", "G(", "S(", "C(", "N(", "Q", "L(")):
            nontrivial += 1
        kind, what = judge(t, it.get("out", ""), it["ok"])
        if kind:
            viols.append(("C13|%s|%s" % (kind, features(t)), "%r: %s" % (t, what), None, [t]))
    return viols, {"n": len(batch), "nontrivial": nontrivial}


def check_include(ws, batch):
    os.makedirs(INC_DIR, exist_ok=True)
    _, incs = gen_include()
    for k, inc in enumerate(incs):
        with open(os.path.join(INC_DIR, "inc%d.hpp" % k), "w") as f:
            f.write(inc)
    files = {"inc%d.hpp" % k: inc for k, inc in enumerate(incs)}
    cases = [{"text": t, "maps": [[INC_DIR, "/"]], "path": "/main.sqf", "phys": os.path.join(INC_DIR, "main.sqf")} for t, k in batch]
    r = ws.call({"mode": "pp", "cases": cases}, variant="fast")
    viols = []
    for (t, k), it in zip(batch, r["result"]["items"]):
        kind, what = judge(t, it.get("out", ""), it["ok"], files)
        if kind:
            viols.append(("C13|include|%s" % kind, "%r: %s %s" % (t, what, [m["msg"][:80] for m in it["log"]][:1]), None, [[t, k]]))
    return viols, {"n": len(batch), "nontrivial": len(batch)}


def spaces(tier):
    return [Space("segments", gen(2 if tier == "quick" else 3), check, variant="fast", describe="header x conditional x use-segment sequences"),
            Space("parameter-shadows-macro", gen_shadow(2 if tier == "quick" else 3), check, variant="fast",
                  describe="function-like macros whose parameter names are also macro names (9 definition orders) x sequences of uses (plain, macro-name, nested and string arguments)"),
            Space("include", gen_include()[0], check_include, variant="fast", describe="#include of generated files before/after defines and uses")]
