"""C04 - runtime errors are never silent, never skipped over, never leak into later code.

(a) Fault placement: an erroring statement of every kind is placed in the executed block position of every
template chain, with every handler placement (none / except__ around the fault / except__ around the whole
program / try-catch around the fault (must not intercept runtime errors) / error inside a handler); the real
VM's trace, result code, stack trace location and handler behaviour are compared with the reference.
(b) Histories: every sequence of <=3 (quick) / <=4 (thorough) runs on ONE VM drawn from {clean, error in the
middle, error as very last action, error in a spawned script, handled error}: each run is judged on its own
(a clean run is never reported as failed, an erroring run always is), whatever preceded it.
"""
import itertools
from ..engine import Space
from ..ref import progs, sqf_interp as I
from . import c02

PROPERTY = "C04"
LEVEL = "model_checking"
VARIANTS = ["fast"]
RULE = ("fault placement: template chains (depth<=2 quick, <=3 over the interacting subset thorough) x 8 error kinds x 6 handler "
        "placements; histories: all sequences of run kinds up to length 3/4 on one VM, states = distinct observable VM states "
        "(error flag, pending messages, contexts, runtime state) after a run, transitions = runs; distinct by (chain, error, handler)")
ASSUMPTIONS = c02.ASSUMPTIONS + [
    "only except__ is a handler for runtime errors (the statement names it); try/catch handles throw only",
    "the textual form of _exception is not judged, only that it is non-nil",
    "`throw` without handler is covered by C02, not used as an error source here",
]
DEADLINE_S = {"quick": 540, "thorough": 1500}

ERRS = list(I.ERR_CODE)
HANDLERS = ["none", "except-inner", "except-outer", "try-inner", "error-in-handler", "except-inner-in-outer"]


def build(chain, err, handler):
    ids = progs.Ids()
    ids.n = 5000
    E = ("err", err)
    if handler == "none":
        hole = [ids.m(), E, ids.m()]
    elif handler == "except-inner":
        hole = [ids.m(), ("except", [ids.m(), E, ids.m()], [("excnil", ids.id()), ids.m()]), ids.m()]
    elif handler == "try-inner":
        hole = [ids.m(), ("try", [ids.m(), E, ids.m()], [ids.m()]), ids.m()]
    elif handler == "error-in-handler":
        hole = [ids.m(), ("except", [ids.m(), E, ids.m()], [ids.m(), ("err", "type"), ids.m()]), ids.m()]
    elif handler == "except-inner-in-outer":
        hole = [ids.m(), ("except", [ids.m(), ("except", [E, ids.m()], [("excnil", ids.id()), ("err", "index"), ids.m()]), ids.m()],
                          [("excnil", ids.id()), ids.m()]), ids.m()]
    else:
        hole = [ids.m(), E, ids.m()]
    body = progs.build_with_hole(chain, hole)
    if handler == "except-outer":
        body = [("mark", 7000), ("except", body, [("excnil", 7001), ("mark", 7002)]), ("mark", 7003)]
    return body


def fault_lines(text):
    """0-based line numbers of the lines holding an erroring statement."""
    out = []
    for i, l in enumerate(text.split("\n")):
        if l.strip() in I.ERR_CODE.values():
            out.append(i)
    return out


def judge(ws, chain, err, handler):
    prog = build(chain, err, handler)
    exp_trace, _, status = I.Interp().run_program(prog)
    text = I.render_program(prog, "; ")
    r = c02.run_program(ws, text, "fast")
    kind, trace, errors = c02.observe(r)
    if kind != "ok":
        return kind.split(":")[0], kind, text
    res = r["result"]
    exp, got = I.norm(exp_trace), I.norm(trace)
    rr = res["steps"][2]["r"]
    flines = set(fault_lines(text))
    errlogs = [m for m in res["log"] if m["lvl"] <= 1]
    stack = [m for m in res["log"] if m["code"] == 60001]
    reached_fault = any(True for _ in [0]) and (len(exp) > 0)
    if got != exp:
        i = 0
        while i < len(got) and i < len(exp) and got[i] == exp[i]:
            i += 1
        if i >= len(exp):
            what = "statement ran after the fault: %r" % (got[i],)
            k = "ran-after-fault" if status == "runtime-error" else "extra-trace"
        elif i >= len(got):
            what = "execution stopped early, expected %r next" % (exp[i],)
            k = "stopped-early"
        else:
            what = "trace position %d: got %r expected %r" % (i, got[i], exp[i])
            k = "wrong-trace"
        return k, what, text
    if status == "runtime-error":
        if rr != 2:
            return "not-reported-failed", "unhandled runtime error but execute returned %d" % rr, text
        if not stack:
            return "no-stacktrace", "unhandled runtime error without stack trace", text
        if any(m.get("line") not in flines for m in stack):
            return "stacktrace-wrong-line", "stack trace names line %r, fault is on %r" % ([m.get("line") for m in stack], sorted(flines)), text
    else:
        if rr != -1:
            return "clean-run-reported-failed", "handled/no error but execute returned %d" % rr, text
        if stack:
            return "stacktrace-on-handled", "stack trace although the error was handled", text
    # parser diagnostics of `compile` are positioned inside the compiled string, not in the script
    bad = [m for m in errlogs if m["code"] != 60001 and m.get("line") not in flines and not (30000 <= m["code"] < 40000)]
    if bad:
        return "error-blamed-elsewhere", "error diagnostic on line %r (faults are on %r): %s" % (bad[0].get("line"), sorted(flines), bad[0]["msg"][:100]), text
    return None, "", text


_memo = {}


def blame(ws, chain, err, handler, kind):
    n = len(chain)
    for ln in range(0, n):
        for st in range(0, n - ln + 1):
            sub = tuple(chain[st:st + ln])
            key = (sub, err, handler)
            if key not in _memo:
                _memo[key] = judge(ws, list(sub), err, handler)[0]
            if _memo[key] == kind:
                return list(sub)
            if ln == 0:
                break
    return chain


def check(ws, case):
    chain, err, handler = case
    kind, what, text = judge(ws, chain, err, handler)
    info = {"n": 1, "nontrivial": 1, "states": 1, "transitions": 1, "executions": 1}
    if kind is None:
        return [], info
    b = blame(ws, chain, err, handler, kind)
    sig = "C04|err=%s|handler=%s|in=%s|%s" % (err, handler, ">".join(b) or "top-level", kind)
    return [(sig, "%s: %s ; program: %s" % (">".join(chain) or "top-level", what, text.replace("\n", " ")[:500]), None, case)], info


def gen_faults(depth, names=None, errs=ERRS, handlers=HANDLERS):
    def g():
        for err in errs:
            for h in handlers:
                yield [[], err, h]
        for ch in progs.chains(depth, names):
            for err in errs:
                for h in handlers:
                    yield [ch, err, h]
    return g


# ---------------------------------------------------------------- histories on one VM
RUNS = {
    "clean": ('diag_log "c1"; private _v = 1 + 1; diag_log "c2"', "ok"),
    "err-mid": ('diag_log "e1";\n1 + "a"\n; diag_log "e2"', "fail"),
    "err-last": ('diag_log "l1";\n{5} count [1]\n', "fail"),
    "err-last-nested": ('diag_log "n1"; call { if (true) then {\n[1] findIf {5}\n} }', "fail"),
    "spawned-err": ('diag_log "s1"; [] spawn { diag_log "s2";\n1 + "a"\n; diag_log "s3" }; diag_log "s4"', "fail"),
    "spawned-err-last": ('[] spawn {\n{5} count [1]\n}; diag_log "t1"', "fail"),
    # an unhandled error in one script while another script is still scheduled (asleep / mid-way through its slices)
    "spawned-err-other-asleep": ('[] spawn { sleep 0.002; diag_log "z9" }; [] spawn {\n1 + "a"\n}; diag_log "z1"', "fail"),
    "spawned-err-main-busy": ('[] spawn {\n1 + "a"\n}; for "_i" from 1 to 200 do { q = _i }; diag_log "b1"', "fail"),
    "handled": ('diag_log "h1"; {\n1 + "a"\n} except__ { diag_log "h2" }; diag_log "h3"', "ok"),
    "two-clean-scripts": ('[] spawn { diag_log "w1"; diag_log "w2" }; diag_log "w3"', "ok"),
}
# runs that the runtime limit cuts short (judged by C11; here only what they leave behind for the NEXT run matters)
LIMIT_RUNS = {
    "limit-loop": ('diag_log "x1"; while {true} do { q = 1 }', "limit"),
    "limit-empty-loop": ('waitUntil { false }', "limit"),
    "limit-spawned-loop": ('[] spawn { while {true} do { q = 1 } }; diag_log "y1"', "limit"),
    "limit-all-asleep": ('[] spawn { sleep 100 }; diag_log "a1"', "limit"),
    "limit-after-handled": ('{\n1 + "a"\n} except__ { diag_log "k1" }; while {true} do { q = 2 }', "limit"),
}
# a runtime error raised while the text of a run is PREPROCESSED (failing __EVAL): it is reported where it happens (inside
# the evaluated expression) and is no error of the script, which then runs like any clean one - and so do the runs after it
PP_RUNS = {
    "eval-fails-in-preprocessing": ('diag_log "p1"; private _v = [__EVAL(1 + true)]; diag_log "p2"', "ok"),
    "eval-fails-then-error": ('diag_log "q1"; private _v = [__EVAL(1 + true)];\n1 + "a"\n; diag_log "q2"', "fail"),
}
HIST_LIMIT_KINDS = ["clean", "err-mid", "spawned-err", "handled"] + list(LIMIT_RUNS) + list(PP_RUNS)
RUNS.update(LIMIT_RUNS)
RUNS.update(PP_RUNS)
EVAL_PATH = "__evaluate_expression__"
LIMIT_CODE = 60002
UNREACHED = {"e2", "s3", "q2"}
ALL_MARKS = {"clean": ["c1", "c2"], "handled": ["h1", "h2", "h3"], "two-clean-scripts": ["w1", "w2", "w3"], "eval-fails-in-preprocessing": ["p1", "p2"]}


def gen_hist(maxlen, kinds=None, need=None):
    def g():
        for n in range(1, maxlen + 1):
            for seq in itertools.product(kinds or [k for k in RUNS if k not in LIMIT_RUNS and k not in PP_RUNS], repeat=n):
                if need and not (set(seq) & set(need)):
                    continue
                yield list(seq)
    return g


def check_hist(ws, seq):
    limited = bool(set(seq) & set(LIMIT_RUNS))
    steps = [{"op": "vm", "id": 0, "template": True, "max_runtime_ms": 20 if limited else 300}]
    for k in seq:
        steps.append({"op": "sqf", "id": 0, "text": RUNS[k][0], "path": k + ".sqf", "preprocess": k in PP_RUNS})
        steps.append({"op": "exec", "id": 0, "action": "start"})
        steps.append({"op": "exec", "id": 0, "action": "abort"})   # what CLI / C API do after a failed run
        steps.append({"op": "state", "id": 0})
    r = ws.call({"mode": "steps", "fork": True, "timeout_ms": 20000, "clock": {"tick_us": 1}, "steps": steps}, variant="fast", prepare=c02.PREP)
    if r["outcome"] != "ok":
        return [("C04|history|%s" % r.get("kind", r["outcome"]), "history %r: %r" % (seq, r.get("kind")), None, seq)], {"n": 1}
    res = r["result"]
    viols = []
    states = set()
    for i, k in enumerate(seq):
        base = 1 + 4 * i
        ex = res["steps"][base + 1]
        st = res["steps"][base + 3]["vm"]
        states.add((st["state"], st["error_flag"], st["pending_msgs"], len(st["contexts"])))
        logs = [m for m in res["log"] if m["step"] in (base, base + 1, base + 2)]
        marks = [m["msg"].split("[DIAG_LOG] ", 1)[1] for m in logs if m["code"] == 60019]
        errs = [m for m in logs if m["lvl"] <= 1]
        if k in PP_RUNS:    # what the failing __EVAL reports about itself is located in the evaluated expression
            errs = [m for m in errs if not (m.get("path") or "").startswith(EVAL_PATH)]
        prev = seq[i - 1] if i else "start"
        tag = "after=%s|run=%s" % (prev, k)
        if RUNS[k][1] == "limit":
            if not any(m["code"] == LIMIT_CODE for m in logs):
                viols.append(("C04|history|%s|limit-run-not-cut" % tag, "history %r: run %d (%s) was expected to be ended by the runtime limit: %r" % (
                    seq, i, k, [m["msg"][:60] for m in logs][:3]), None, seq))
        elif RUNS[k][1] == "ok":
            if ex["r"] not in (-1,):
                viols.append(("C04|history|%s|clean-run-reported-failed" % tag, "history %r: run %d (%s) returned %d" % (seq, i, k, ex["r"]), None, seq))
            elif any(m["code"] == 60001 for m in errs) or (k != "handled" and errs):
                viols.append(("C04|history|%s|clean-run-blamed" % tag, "history %r: run %d (%s) got error diagnostics %s" % (seq, i, k, errs[0]["msg"][:80]), None, seq))
            elif sorted(marks) != sorted(ALL_MARKS[k]):
                viols.append(("C04|history|%s|clean-run-incomplete" % tag, "history %r: run %d (%s) executed %r" % (seq, i, k, marks), None, seq))
        else:
            if ex["r"] != 2:
                viols.append(("C04|history|%s|not-reported-failed" % tag, "history %r: run %d (%s) returned %d, no failure reported" % (seq, i, k, ex["r"]), None, seq))
            elif not any(m["code"] == 60001 for m in errs):
                viols.append(("C04|history|%s|no-stacktrace" % tag, "history %r: run %d (%s) without stack trace" % (seq, i, k), None, seq))
            if UNREACHED & set(marks):
                viols.append(("C04|history|%s|ran-after-fault" % tag, "history %r: run %d (%s) executed %r after the fault" % (seq, i, k, sorted(UNREACHED & set(marks))), None, seq))
        foreign = [m for m in errs if m.get("path") and not m["path"].startswith(k)]
        if foreign:
            viols.append(("C04|history|%s|error-blamed-on-other-run" % tag, "history %r: run %d (%s) reports an error located in %s" % (seq, i, k, foreign[0]["path"]), None, seq))
        if st["state"] != "empty" or st["contexts"] or st["error_flag"]:
            viols.append(("C04|history|%s|state-leaks" % tag, "history %r: after run %d (%s) and abort: state=%s contexts=%d error_flag=%s" % (
                seq, i, k, st["state"], len(st["contexts"]), st["error_flag"]), None, seq))
    # report only the first violation of a history (later ones are consequences)
    return viols[:1], {"n": 1, "nontrivial": 1, "states": len(states), "transitions": len(seq), "executions": 1}


def spaces(tier):
    sp = [
        Space("faults-depth1", gen_faults(1), check, variant="fast",
              describe="fault at top level and in every template's executed block x 8 error kinds x 6 handler placements"),
        Space("histories", gen_hist(3 if tier == "quick" else 5), check_hist, variant="fast",
              describe="all sequences of run kinds on one VM (10 kinds; length <=3 quick, <=5 thorough)"),
        Space("histories-with-limit", gen_hist(3 if tier == "quick" else 4, HIST_LIMIT_KINDS, list(LIMIT_RUNS) + list(PP_RUNS)), check_hist, variant="fast",
              describe="sequences of runs on one VM that contain at least one run ended by the runtime limit (5 kinds) or one whose text holds a failing __EVAL (2 kinds), mixed with 4 ordinary kinds"),
    ]
    if tier == "quick":
        sp.append(Space("faults-depth2-reduced", gen_faults(2, c02_interact(), ["type", "count-behaviour"], ["none", "except-inner", "try-inner"]), check,
                        variant="fast", describe="depth-2 chains over the frame-interacting templates x 2 error kinds x 3 handlers"))
    else:
        sp.append(Space("faults-depth2", gen_faults(2), check, variant="fast", describe="all depth-2 chains x 8 error kinds x 6 handlers"))
    return sp


def c02_interact():
    from .c05 import INTERACT
    return INTERACT
