"""C10 - front ends are total: any input yields a result or a diagnostic, never a crash.

For each textual front end (preprocessor, SQF parser, config parser, and compile / preprocess__ / configparse__
reached from scripts): all strings up to length n over an alphabet of the scanners' branch characters, every
prefix and suffix-truncation of a corpus of valid inputs, every single-token mutation of the corpus, directive
graphs with self/mutual recursion, and nesting ladders - executed in forked ASan/UBSan children with a watchdog.
Oracle: terminates, result or >=1 error diagnostic, no sanitizer report / escaped exception, same result twice.
"""
import glob, itertools, os, re
from ..engine import Space

PROPERTY = "C10"
LEVEL = "fault_enumeration"
VARIANTS = ["asan"]
RULE = ("per front end: all strings of length <= n over the branch-character alphabet (n=3 quick, 4..5 thorough), all prefixes and "
        "suffix-truncations of the corpus (tests/*.sqf, tests/config.cpp, generated samples), all single-token mutations "
        "(delete / duplicate / replace by each token kind), directive graphs over <=3 macros, nesting ladders, include graphs over 2 (quick) / 3 (thorough) real files; a case = one input "
        "text for one front end; non-trivial = non-empty text; distinct by (front end, text)")
ASSUMPTIONS = [
    "time proportional to input: watchdog of 3 s + 30 ms per batch item + 10 ms per KiB (generous constant); nesting ladders stop at depth "
    "10^3 (the AST-copying bison actions make deep unary chains quadratic: 1 s at depth 10^3 under ASan; recorded in DESIGN.md limits); "
    "children get a 256 MiB stack so that recursion proportional to the nesting depth is not mistaken for unbounded recursion",
    "the assembly parser is not among the front ends named by the statement and is not judged",
    "`same result` is judged on (success flag, result digest, diagnostics' level/code/line/column) of two runs with fresh state",
]
DEADLINE_S = {"quick": 480, "thorough": 1700}

BASE = ["a", "1", '"', "'", "/", "*", "#", "\n", "\\", "(", ")", "{", "}", ","]
EXTRA = {"sqf": [";", "=", "[", "]", ".", "e", "x", "$", " "], "config": [";", "=", ":", "[", "]", " "], "pp": [" ", "A", "d"]}
FES = ["sqf", "config", "pp", "compile", "preprocess__", "configparse__"]
BATCH = 300


def alphabet(fe):
    base = {"compile": "sqf", "preprocess__": "pp", "configparse__": "config"}.get(fe, fe)
    return BASE + EXTRA[base]


def batched(fe, it, n=BATCH):
    buf = []
    for x in it:
        buf.append(x)
        if len(buf) >= n:
            yield [fe, buf]
            buf = []
    if buf:
        yield [fe, buf]


def gen_strings(maxlen):
    def g():
        for fe in FES:
            al = alphabet(fe)
            def strs():
                for n in range(0, maxlen[fe] + 1):
                    for t in itertools.product(al, repeat=n):
                        yield "".join(t)
            for b in batched(fe, strs()):
                yield b
    return g


SAMPLES_SQF = [
    'private _a = [1, 2.5, "s", {x; y}, -3e2]; if (_a isEqualTo []) then { hint "a" } else { _a pushBack 0x1F };',
    '{ _x = _x + 1 } forEach [1,2,3]; switch (_a) do { case 1: { "one" }; default { "d" } }; _b = \'q\' + "w""w";',
    "/* c */ a = 1; // line\n b = $FF; c = .5; d = 1e3; e = !true && {false} || (1 >= 2);",
]
SAMPLES_CFG = [
    'class A { x = 1; y = "s"; z[] = {1, {2, "a"}, 3.5}; class B : A { delete x; z[] += {4}; }; }; class C;',
    "class D { a = -1.5e3; b = 'q'; c[] = {}; }; // c\n /* d */ e = 0x10;",
]
SAMPLES_PP = [
    '#define A 1\n#define F(x,y) x + y ## z #x\n#ifdef A\nF(A, (2,3))\n#else\nnope\n#endif\n#undef A\n"str // x" /* c */ __LINE__ __FILE__\n',
    '#ifndef B\n#define B(a) [a]\n#endif\nB(B(1)) \\\n cont\n#include "missing.hpp"\n',
]


def corpus(fe):
    base = {"compile": "sqf", "preprocess__": "pp", "configparse__": "config"}.get(fe, fe)
    out = []
    if base == "sqf":
        out += SAMPLES_SQF
        for f in sorted(glob.glob("/repo/tests/sqf/*.sqf"))[:12]:
            out.append(open(f, errors="replace").read()[:600])
    elif base == "config":
        out += SAMPLES_CFG
        out.append(open("/repo/tests/config.cpp", errors="replace").read()[:800])
    else:
        out += SAMPLES_PP
        for f in sorted(glob.glob("/repo/tests/preprocess/*.sqf")):
            out.append(open(f, errors="replace").read()[:600])
    return out


TOKEN_RE = re.compile(r'"(?:[^"]|"")*"|\'[^\']*\'|[A-Za-z_#][A-Za-z0-9_]*|\d+(?:\.\d+)?|\s+|.', re.S)
REPL = ['"', "'", "(", ")", "{", "}", "[", "]", ";", ",", "=", "#", "//", "/*", "*/", "\\\n", "\n", "1", "a", "#define", "class", ":", "+=", "##", "$", "0x", "1e", "."]


def gen_corpus(step):
    def g():
        for fe in FES:
            def texts():
                for doc in corpus(fe):
                    for i in range(0, len(doc) + 1, step):
                        yield doc[:i]
                    for i in range(0, len(doc) + 1, step):
                        yield doc[i:]
            for b in batched(fe, texts()):
                yield b
    return g


def gen_mutations(limit_docs):
    def g():
        for fe in FES:
            def texts():
                for doc in corpus(fe)[:limit_docs]:
                    toks = TOKEN_RE.findall(doc[:400])
                    for i in range(len(toks)):
                        if toks[i].isspace():
                            continue
                        yield "".join(toks[:i] + toks[i + 1:])
                        yield "".join(toks[:i] + [toks[i], toks[i]] + toks[i + 1:])
                        for r in REPL:
                            yield "".join(toks[:i] + [r] + toks[i + 1:])
            for b in batched(fe, texts()):
                yield b
    return g


def gen_directives():
    names = ["A", "B", "C"]
    bodies = ["", "1", "A", "B", "C", "A B", "B(1)", "A##B", "#A"]
    def texts():
        for defs in itertools.product(bodies, repeat=3):
            for use in ("A", "B C", "A(1)", "C(A,B)"):
                yield "".join("#define %s %s\n" % (n, b) for n, b in zip(names, defs)) + use + "\n"
        for defs in itertools.product(["x", "F(x)", "G(x)", "F(G(x))", "x x", "#x", "x##x"], repeat=2):
            for use in ("F(1)", "G(F(1))", "F(", "F(1", "F(1,2)", "F()", "F((1,2))", 'F("a,b")'):
                yield "#define F(x) %s\n#define G(x) %s\n%s\n" % (defs[0], defs[1], use)
        for d in ("#include", "#ifdef", "#ifndef", "#else", "#endif", "#undef", "#define", "#pragma", "#line", "#if", "#error", "#"):
            for tail in ("", " ", " A", " A\n#endif", ' "in.sqf"', " <x>", " A(", "\n#else\n#else\n#endif"):
                yield d + tail
                yield "#ifdef A\n" + d + tail + "\n#endif\n"
        yield '#include "in.sqf"\n'
        # the built-in macros, used with every kind of argument text (the evaluating ones run SQF)
        exprs = ["", "nil", "1", "1 +", "call {}", "x = 1", "[] spawn {}", "sleep 1", "throw 1", "if true", '1 + "a"', "[1,2]", "{1}", ")", "(", ",", "1,2",
                 "__EVAL(1)", "__EVAL(nil)", "__LINE__", 'preprocess__ "__EVAL(1)"', "preprocess__ '__EVAL(preprocess__ ''__EVAL(2)'')'",
                 "compile '1'", "call compile '__EVAL(1)'", "exit__", "halt", "A", "__COUNTER__"]
        for m in ("__EVAL", "__EXEC", "__LINE__", "__FILE__", "__COUNTER__", "__COUNTER_RESET__", "__GAME_VER__", "_SQFVM"):
            for e in exprs:
                for pre in ("", "#define A __EVAL(2)\n", "x = "):
                    yield "%s%s(%s)\n" % (pre, m, e)
            yield m
            yield m + "("
            yield "#define %s 1\n%s\n" % (m, m)
            yield "#undef %s\n%s(1)\n" % (m, m)
            yield "#ifdef %s\n%s\n#endif\n" % (m, m)
    return lambda: itertools.chain.from_iterable(batched(fe, texts(), 40) for fe in ("pp", "preprocess__"))


def gen_line_directives():
    """`#line` directives as the tokenizers of the parsers see them (the preprocessor emits them, text handed to compile /
    configparse__ may contain anything): every combination of number form, file part, line ending and position."""
    def g():
        for fe in ("sqf", "config", "compile", "configparse__"):
            def texts():
                for num in ("", " 1", " 7", " 99999999999", " x", " -1", "7"):
                    for fpart in ("", " ", ' "f.sqf"', ' "', " x", ' "f" y', ' ""', " '", ' "f', " \\"):
                        for eol in ("\n", "\r\n", "", "\r", "\r\r\n"):
                            for tail in ("", "a", "a = 1;"):
                                yield "#line" + num + fpart + eol + tail
                                yield "a = 1;\n#line" + num + fpart + eol + tail
            for b in batched(fe, texts()):
                yield b
    return g


def gen_ladders(depths):
    def g():
        for fe in FES:
            def texts():
                for d in depths:
                    for o, c in (("(", ")"), ("[", "]"), ("{", "}")):
                        yield o * d + "1" + c * d
                        yield o * d
                        yield c * d
                    yield "class A {" * d + "}; " * d
                    yield "- " * d + "1"
                    yield "1 +" * d + "1"
                    yield '"' + "x" * (d * 10)
                    yield "F(" * d
            for b in batched(fe, texts(), 8):
                yield b
    return g


def to_script(fe, text):
    lit = '"' + text.replace('"', '""') + '"'
    return {"compile": "compile %s", "preprocess__": "preprocess__ %s", "configparse__": "configparse__ %s"}[fe] % lit


def run(ws, fe, texts, symbolize=False):
    tmo = 3000 + 30 * len(texts) + sum(len(t) for t in texts) // 100
    if fe in ("sqf", "config", "pp"):
        req = {"mode": "front", "fork": True, "timeout_ms": tmo, "fe": fe, "texts": texts, "stack_mb": 256}
    else:
        req = {"mode": "eval", "fork": True, "timeout_ms": tmo, "texts": [to_script(fe, t) for t in texts],
               "conf": {"ops": "full", "max_runtime_ms": 2000}, "tick_us": 1, "stack_mb": 256}
    if symbolize:
        return ws.call(req, variant="asan", max_alloc_mb=512, rss_mb=3072)
    return ws.call(req, variant="asan", max_alloc_mb=512, rss_mb=3072, env_extra_key="nosym")


def feature(text):
    f = []
    for name, pat in (("line-comment", "//"), ("block-comment", "/*"), ("hash-line", "#line"), ("define", "#define"), ("include", "#include"),
                      ("ifdef", "#if"), ("dq-string", '"'), ("sq-string", "'"), ("backslash", "\\"), ("hash", "#"), ("deep", "((((((((((")):
        if pat in text:
            f.append(name)
    return "+".join(f[:3]) or "plain"


def check(ws, case):
    fe, texts = case
    texts = [t for t in texts if "\x00" not in t]
    info = {"n": len(texts), "nontrivial": sum(1 for t in texts if t)}
    r = run(ws, fe, texts)
    if r["outcome"] == "ok":
        viols = []
        items = r["result"]["items"]
        for t, it in zip(texts, items):
            if fe in ("sqf", "config", "pp"):
                if not it["ok"] and it["nerr"] == 0:
                    viols.append(("C10|%s|failed-without-diagnostic|%s" % (fe, feature(t)), "%s front end rejected %r without any error diagnostic" % (fe, t[:80]), None, [fe, [t]]))
                if not it["same"]:
                    viols.append(("C10|%s|nondeterministic|%s" % (fe, feature(t)), "%s front end gave different results for the same input %r" % (fe, t[:80]), None, [fe, [t]]))
            else:
                if any(m["code"] == 60002 for m in it["log"]):
                    viols.append(("C10|%s|instruction-budget|%s" % (fe, feature(t)), "%r did not finish" % t[:80], None, [fe, [t]]))
        return viols, info
    if len(texts) == 1:
        r2 = run(ws, fe, texts, symbolize=True)
        if r2["outcome"] == "ok":
            return [("C10|%s|nondeterministic-crash" % fe, "input %r failed once (%s) then passed" % (texts[0][:80], r.get("kind")), None, [fe, texts])], info
        kind = r2.get("kind", r2["outcome"]) if r2["outcome"] == "crash" else r2["outcome"]
        from .c09 import kind_class
        return [("C10|%s|%s|%s" % (fe, kind_class(kind), feature(texts[0])), "%s front end on %r: %s in %s" % (fe, texts[0][:80], kind, r2.get("frame", "")[:140]), None, [fe, texts])], info
    mid = len(texts) // 2
    v1, _ = check(ws, [fe, texts[:mid]])
    v2, _ = check(ws, [fe, texts[mid:]])
    return v1 + v2, info


# ---------------------------------------------------------------- include graphs over real files
from .. import build as B
INC_SCR = os.path.join(B.BUILD, "scratch", "c10")
WRAPS = {
    "plain": "%s\n",
    "ifndef-never": "#ifndef NEVER\n%s\n#endif\n",
    "ifdef-on": "#ifdef ON\n%s\n#endif\n",
    "guarded": "#ifndef G_@\n#define G_@\n%s\n#endif\n",
    "else-branch": "#ifdef NEVER\nno_@\n#else\n%s\n#endif\n",
    "disabled": "#ifdef NEVER\n%s\n#endif\n",
}
INC_TARGETS = [None, "a", "b", "c"]


def inc_file(name, wrap, target):
    inc = WRAPS[wrap].replace("@", name) % ('#include "/%s.hpp"' % target) if target else ""
    return "pre_%s\n%spost_%s\n" % (name, inc, name)


def gen_include_graphs(three):
    """main.sqf includes a.hpp (and then b.hpp); a/b(/c) each hold at most one #include of a/b/c in one of 6 conditional wrappings."""
    def g():
        slots = [(w, t) for w in WRAPS for t in INC_TARGETS[1:] if three or t != "c"] + [("plain", None)]
        for mains in (["a"], ["a", "b"]):
            for sa in slots:
                for sb in slots:
                    for sc in (slots if three else [("plain", None)]):
                        yield [mains, list(sa), list(sb), list(sc)]
    return g


def include_reference(mains, spec):
    """-> (cyclic, marker sequence). A file named while it is still open is a cycle whatever guards it carries."""
    defined = {"ON"}
    out = []
    class Cycle(Exception):
        pass
    def enter(name, stack):
        if name in stack:
            raise Cycle()
        wrap, target = spec[name]
        out.append("pre_" + name)
        if target:
            live = {"plain": True, "ifndef-never": True, "ifdef-on": True, "else-branch": True, "disabled": False,
                    "guarded": ("G_" + name) not in defined}[wrap]
            if wrap == "guarded" and live:
                defined.add("G_" + name)
            if live:
                enter(target, stack + [name])
        out.append("post_" + name)
    try:
        for m in mains:
            enter(m, [])
    except Cycle:
        return True, out
    return False, out


def check_include_graph(ws, case):
    mains, sa, sb, sc = case
    spec = {"a": tuple(sa), "b": tuple(sb), "c": tuple(sc)}
    d = os.path.join(INC_SCR, "w%d" % os.getpid())
    os.makedirs(d, exist_ok=True)
    for n, (w, t) in spec.items():
        with open(os.path.join(d, n + ".hpp"), "w") as f:
            f.write(inc_file(n, w, t))
    text = "#define ON\n" + "".join('#include "/%s.hpp"\n' % m for m in mains) + "end_main\n"
    cyc, marks = include_reference(mains, spec)
    info = {"n": 1, "nontrivial": 1 if any(t for _, t in spec.values()) else 0}
    tag = "cyclic" if cyc else "acyclic"
    shape = "+".join(sorted({w for w, t in spec.values() if t}))
    r = ws.call({"mode": "pp", "fork": True, "timeout_ms": 8000, "cases": [{"text": text, "maps": [[d, "/"]], "path": "/main.sqf", "phys": os.path.join(d, "main.sqf")}]}, variant="asan")
    if r["outcome"] != "ok":
        kind = r.get("kind", r["outcome"]) if r["outcome"] == "crash" else r["outcome"]
        from .c09 import kind_class
        return [("C10|pp|include-graph|%s|%s|%s" % (tag, kind_class(kind), shape), "include graph main->%s a=%s b=%s c=%s: %s in %s" % (mains, sa, sb, sc, kind, r.get("frame", "")[:120]), None, case)], info
    it = r["result"]["items"][0]
    nerr = sum(1 for m in it["log"] if m["lvl"] <= 1)
    if cyc:
        if it["ok"] or nerr == 0:
            return [("C10|pp|include-graph|cycle-not-reported|%s" % shape, "include graph main->%s a=%s b=%s c=%s is cyclic: ok=%s, %d error diagnostics" % (mains, sa, sb, sc, it["ok"], nerr), None, case)], info
        return [], info
    if not it["ok"]:
        return [("C10|pp|include-graph|acyclic-rejected|%s" % shape, "include graph main->%s a=%s b=%s c=%s has no cycle but preprocessing failed: %s" % (
            mains, sa, sb, sc, [m["msg"][:80] for m in it["log"]][:1]), None, case)], info
    got = re.findall(r"\b(?:pre|post)_[abc]\b|\bno_[abc]\b", it.get("out", ""))
    if got != marks:
        return [("C10|pp|include-graph|wrong-expansion|%s" % shape, "include graph main->%s a=%s b=%s c=%s: file bodies appear as %r, expected %r" % (mains, sa, sb, sc, got, marks), None, case)], info
    return [], info


def spaces(tier):
    q = tier == "quick"
    ml = {"sqf": 3, "config": 3, "pp": 3, "compile": 2, "preprocess__": 2, "configparse__": 2} if q else \
         {"sqf": 5, "config": 5, "pp": 5, "compile": 3, "preprocess__": 3, "configparse__": 3}
    return [
        Space("short-strings", gen_strings(ml), check, variant="asan", describe="all strings up to length %r over the per-front-end alphabet" % ml),
        Space("corpus-truncations", gen_corpus(3 if q else 1), check, variant="asan", describe="every prefix and suffix-truncation of the corpus (step %d)" % (3 if q else 1)),
        Space("token-mutations", gen_mutations(2 if q else 6), check, variant="asan", describe="delete / duplicate / replace each token by each of %d token kinds" % len(REPL)),
        Space("directive-graphs", gen_directives(), check, variant="asan", describe="#define graphs over 3 object-like and 2 function-like macros incl. self/mutual recursion; stray directives"),
        Space("line-directives", gen_line_directives(), check, variant="asan", describe="#line directives in the parsers' tokenizers: number forms x file parts x LF / CRLF / CR / none x position"),
        Space("nesting-ladders", gen_ladders([1, 10, 100, 300]), check, variant="asan", describe="nesting depth ladders for ( [ { class, unary chains, long strings"),
        Space("include-graphs", gen_include_graphs(not q), check_include_graph, variant="asan",
              describe="include graphs over real files: main includes a (and b); a, b%s each hold <=1 #include of one another or themselves in 6 conditional wrappings; cycles must be reported, acyclic graphs expand in order" % ("" if q else ", c")),
    ]
