"""C09 - every operator is total and memory-safe on all type-correct arguments.

For every registered signature (taken from the live registry of the built tree) every argument tuple from
per-type boundary pools is executed *through the VM* (parse, push, call) in forked ASan/UBSan children with a
watchdog, an instruction budget (virtual clock) and an allocation limit. Outcome must be a value or an SQF
diagnostic; anything else (signal, sanitizer report, escaped C++ exception, hang, allocation limit) is a violation.
"""
import re, itertools, os
from ..engine import Space
from .. import build as B

PROPERTY = "C09"
LEVEL = "exploration"
VARIANTS = ["asan"]
RULE = ("every registered signature x every argument tuple from the per-type pools (quick: reduced pools, arrays of length <=2 "
        "over one representative per type; thorough: full pools, arrays of length <=3); a case = one call; distinct by "
        "(signature, argument labels); non-trivial = all of them (each is a distinct call of a real operator)")
ASSUMPTIONS = [
    "excluded operators: callExtension (loads foreign code), exit__/exitcode__ (terminating the run is their contract), "
    "waitUntil / sleep / uiSleep (blocking by contract; covered by C11/C12), copyToClipboard/copyFromClipboard",
    "file operators run against a scratch directory mapped into the virtual file system",
    "ANY x ANY binary signatures (almost all are inert dummies) use the diagonal of the ANY pool plus boundary pairs instead of the full square",
    "large values: BIG = 20000-element array, STR64 = 4 KiB string, DEEP = 60 levels of nesting; their product (80 MB) stays below the allocation limit, "
    "so an operator whose result is legitimately count x length large is not reported",
    "allocation limit: 512 MiB per allocation / 3 GiB RSS under ASan; instruction budget 2*10^5 via the virtual clock; watchdog 20 s per batch",
]
DEADLINE_S = {"quick": 540, "thorough": 1700}

EXCLUDE = {"callextension", "exit__", "exitcode__", "waituntil", "sleep", "uisleep", "copytoclipboard", "copyfromclipboard",
           "vmctrl__"}

SCRATCH = os.path.join(B.BUILD, "scratch", "c09")

PRELUDE = """
OBJ = "Land_Test" createVehicle [1,2,3]; OBJ2 = "Land_Test" createVehicle [4,5,6]; GRP = createGroup west;
UNIT = GRP createUnit ["Land_Test", [0,0,0], [], 0, "NONE"];
HM = createHashMapFromArray [["a",1],[2,[3]]]; SCR = [] spawn {}; MK = createMarker ["m1", [0,0,0]];
CFG = configFile >> "CfgTest"; CFGV = configFile >> "CfgTest" >> "num"; CFGE = configFile >> "CfgEmpty";
BIG = []; BIG resize 20000; DEEP = []; for "_i" from 1 to 60 do { DEEP = [DEEP] }; STR64 = "x"; for "_i" from 1 to 12 do { STR64 = STR64 + STR64 };
diag_log str ["PRELUDE", ["OBJ","OBJ2","GRP","UNIT","HM","SCR","MK","CFG","CFGV","CFGE","BIG","DEEP","STR64"] select {isNil _x}, isNull OBJ, isNull UNIT, isNull GRP, isNull CFG, count BIG];
"""
PRELUDE_OK = '["PRELUDE",[],false,false,false,false,20000]'
# calls of one batch share a VM: what an earlier call destroyed (deleteVehicle OBJ, BIG resize 0, deleteGroup GRP ...) is
# restored before the next call, so that every call sees the arguments its case names
REFRESH = ('if (isNull OBJ) then {OBJ = "Land_Test" createVehicle [1,2,3]}; if (isNull OBJ2) then {OBJ2 = "Land_Test" createVehicle [4,5,6]}; '
           'if (isNull GRP) then {GRP = createGroup west}; if (isNull UNIT) then {UNIT = GRP createUnit ["Land_Test", [0,0,0], [], 0, "NONE"]}; '
           'if (count BIG != 20000) then {BIG = []; BIG resize 20000}; if (count HM != 2) then {HM = createHashMapFromArray [["a",1],[2,[3]]]}; '
           'if !("m1" in allMapMarkers) then {MK = createMarker ["m1", [0,0,0]]}; if (count DEEP != 1) then {DEEP = []; for "_i" from 1 to 60 do { DEEP = [DEEP] }};\n')

CONFIG = 'class CfgTest { num = 1; txt = "t"; arr[] = {1,{2,3},"x"}; class Sub { a = 1; }; class Child : Sub { b = 2; }; }; class CfgEmpty {}; class CfgDel : CfgTest { delete num; class Own {}; delete Sub; }; class CfgOnlyDel : CfgTest { delete txt; }; class CfgVehicles { class Land_Test { scope = 2; }; };'

SCALAR = ["0", "-0", "1", "-1", "0.5", "2", "3", "20", "255", "1e10", "-1e10", "2147483648", "-2147483649", "3.4e38", "(1e38*10)", "(-1e38*10)", "(sqrt -1)", "1e-30"]
SCALAR_Q = ["0", "1", "-1", "0.5", "1e10", "-1e10", "20", "-2147483649", "3.4e38", "(1e38*10)", "(sqrt -1)"]
STRING = ['""', '"a"', '"%1"', '"%"', '"%0"', '"%99999999999"', "STR64", '(toString [200,255,1])', '"1"', '"a,b"', '"/sub/../f.sqf"', '"f.sqf"', '"CfgTest"', '"m1"', '"Land_Test"', '"_x"', '"1 +"', '"#define A A\nA"', '"one.sqf"', '"empty.sqf"', '"bom1.sqf"', '"bom2.sqf"', '"bom3.sqf"', '"bom4.sqf"', '"bom5.sqf"', '"bom6.sqf"', '"bom7.sqf"', '"bom8.sqf"', '"sub"', '"/"', '"sub/"']
STRING_Q = ['""', '"a"', '"%99999999999"', '"%1"', "STR64", '"f.sqf"', '"1 +"', '"CfgTest"', '"bom1.sqf"', '"bom3.sqf"', '"Land_Test"', '"sub"']
REPS = ["0", '"a"', "[]", "{}", "objNull", "true", "[1,2]", "-1", "OBJ", "1e10", "configFile", "configNull", "grpNull"]
REPS_Q = ["0", '"a"', "[]", "{}", "objNull", "-1", "configFile"]
CODE = ["{}", "{true}", "{1}", "{nil}", "{_x}", "{throw 1}", "{_this}", '{1 + "a"}', "{false}"]
CODE_Q = ["{}", "{true}", "{1}", "{_x}", "{throw 1}"]
OTHER = {
    "BOOL": ["true", "false"],
    "OBJECT": ["objNull", "OBJ", "UNIT", "(call {private _o = \"Land_Test\" createVehicle [0,0,0]; deleteVehicle _o; _o})"],
    "GROUP": ["grpNull", "GRP"],
    "CONFIG": ["configNull", "configFile", "CFG", "CFGV", "CFGE", '(configFile >> "nope")', '(configFile >> "CfgDel")', '(configFile >> "CfgOnlyDel")'],
    "NAMESPACE": ["missionNamespace", "uiNamespace"],
    "SIDE": ["west", "sideUnknown"],
    "TEXT": ['(text "a")', '(text "")'],
    "HASHMAP": ["createHashMap", "HM"],
    "SCRIPT": ["scriptNull", "SCR"],
    "IF": ["(if true)", "(if false)"],
    "WHILE": ["(while {false})"],
    "FOR": ['(for "_i")', '(for "_i" from 0 to 1)', '(for "_i" from 2 to 0 step -1)', '(for "_i" from 0 to 3 step 1.5)'],
    "SWITCH": ["(switch 1)"],
    "WITH": ["(with missionNamespace)"],
    "EXCEPTION": ["(try {})", "(try {throw 1})"],
    "NaN": ["(sqrt -1)"],
    "LOCATION": ["locationNull"],
    "DISPLAY": ["displayNull"],
    "CONTROL": ["controlNull"],
    "TASK": ["taskNull"],
    "NetObject": [],
    "NOTHING": [],
}


def arrays(reps, maxlen):
    out = ["[]"]
    for n in range(1, maxlen + 1):
        for c in itertools.product(reps, repeat=n):
            out.append("[" + ",".join(c) + "]")
    return out


ARRAY_FIXED = [# matrix / vector shapes with one row or one cell that is not what the first row promises
               "[[1,2],0]", "[[1],\"a\"]", "[[1,2],[3,nil]]", "[[1,\"x\"]]", "[[1],[2]]", "[[1,2]]", "[[1,0],[0,nil]]", "[1,[2]]", "[[1,2],[3,4]]", "[[1,2],nil]",
               # many equal elements (comparators must be strict weak orderings: 17+ elements leave insertion sort)
               '(call { private _m = []; for "_i" from 1 to 70 do { _m pushBack [1] }; _m })', '(call { private _m = []; for "_i" from 1 to 70 do { _m pushBack [1, "a"] }; _m })',
               '(call { private _m = []; for "_i" from 1 to 70 do { _m pushBack "s" }; _m })', '(call { private _m = []; for "_i" from 1 to 70 do { _m pushBack (_i % 3) }; _m })',
               "[nil]", "[[]]", "[1,\"a\"]", "[[1,2],[3]]", "[-1,5]", "[0,1e10]", "[200,2e9]", "BIG", "DEEP", "[1,2,3,4,5,6,7,8,9,10]",
               "[[1,2,3],[4,5,6],[7,8,9]]", "[\"a\",\"b\",\"c\"]", "[[\"k\",1]]", "[OBJ, OBJ2]", "[0,0,0]", "[[0,0,0],[1,1,1]]", "[true,false]",
               "[{true},{false}]", "[1,[2,[3,[4]]]]", "[1e38*10, sqrt -1]"]


# well-formed argument arrays of the operators with long / nested formats, and every single-element deviation from them
EXEMPLARS = [['"%99999999999"', "1"], ['"%1 %0 %2147483648 %"', "1"], ['"Land_Test"', "[0,0,0]", "[]", "0", '"NONE"'], ["[0,0,0]", "GRP", '""', "0.5", '"PRIVATE"'], ['"m2"', "[0,0,0]"], ['"m1"', "OBJ"],
             ['"iso_v"', "1"], ['"iso_v"', "1", "true"], ["0", "0", "0"], ["[0,0,0]", "[1,1,1]"], ['"%1 %2"', "1", '"b"'], ["[1,2]", "[3,4]"],
             ['"_a"', '["_b", 1]', '["_c", 2, [0]]', '["_d", 3, [0], 1]'], ["OBJ", '"iso_v"'], ['[["a",1],["b",2]]'], ["0", "2"], ["[0,0,0]", '["All"]', "10"],
             ['(configFile >> "CfgDel")', '"true"', "true"], ['(configFile >> "CfgOnlyDel")', '"true"', "false"]]


SCALAR_LIT = re.compile(r"^-?[0-9.]+$")
SCALAR_EDGE = ["0.25", "0.49", "-0.25", "0.5", "1.5", "-1", "1e10", "-1e10", "(sqrt -1)", "(1e38*10)", "(-1e38*10)", "1e-30", "2147483648"]
SCALAR_EDGE_Q = ["0.25", "-0.25", "1e10", "(sqrt -1)", "(1e38*10)"]


def near_valid(reps, full):
    out = []
    for ex in EXEMPLARS:
        out.append("[" + ",".join(ex) + "]")
        for i in range(len(ex)):
            out.append("[" + ",".join(ex[:i] + ex[i + 1:]) + "]")             # one element missing
            for r in (reps if full else reps[:3]) + ["nil"]:
                if r != ex[i]:
                    out.append("[" + ",".join(ex[:i] + [r] + ex[i + 1:]) + "]")   # one element of another type / value
            if SCALAR_LIT.match(ex[i]):                                          # a number stays a number: boundary and fractional values
                for r in (SCALAR_EDGE if full else SCALAR_EDGE_Q):
                    if r != ex[i]:
                        out.append("[" + ",".join(ex[:i] + [r] + ex[i + 1:]) + "]")
        out.append("[" + ",".join(ex + ["0"]) + "]")                           # one element too many
    seen, res = set(), []
    for a in out:
        if a not in seen:
            seen.add(a); res.append(a)
    return res


def pools(tier):
    q = tier == "quick"
    p = dict(OTHER)
    p["SCALAR"] = SCALAR_Q if q else SCALAR
    p["STRING"] = STRING_Q if q else STRING
    p["CODE"] = CODE_Q if q else CODE
    p["ARRAY"] = ARRAY_FIXED + arrays(REPS_Q if q else REPS, 2 if q else 3) + near_valid(REPS_Q if q else REPS, not q)
    anyp = []
    for t in ("SCALAR", "STRING", "CODE", "BOOL", "OBJECT", "GROUP", "CONFIG", "NAMESPACE", "SIDE", "TEXT", "HASHMAP", "SCRIPT", "IF",
              "WHILE", "FOR", "SWITCH", "WITH", "EXCEPTION", "LOCATION", "DISPLAY", "CONTROL"):
        anyp.extend(p[t][:2])
    anyp.extend(["[]", "[1,2,3]", "[nil]", "BIG"])
    p["ANY"] = anyp
    return p


def reg():
    from ..engine import W
    ws = W()
    r = ws.call({"mode": "registry", "conf": {}}, variant="asan")
    ws.close()
    return r["result"]


KEY_VALUES = {
    "SCALAR": ["0", "-1", "0.5", "1e10", "(sqrt -1)", "(1e38*10)", "-2147483649", "255", "3.4e38"],
    "STRING": ['""', '"a"', '"%99999999999"', "STR64", '"f.sqf"', '"CfgTest"', '"bom1.sqf"', '"sub"'],
}


def key_values(ty, pool):
    """Boundary representatives of a pool that is too large to be crossed with the whole array pool."""
    k = [v for v in KEY_VALUES.get(ty, []) if v in pool]
    return k + [v for v in pool if v not in k][:max(0, 6 - len(k))]


def dedup(it):
    seen = set()
    for x in it:
        if x not in seen:
            seen.add(x)
            yield x


def gen(tier, batch=40):
    def g():
        r = reg()
        P = pools(tier)
        cur = []
        for n in sorted(r["nular"]):
            if n in EXCLUDE:
                continue
            cur.append(["n", n, "", "", "", ""])
            if len(cur) >= batch:
                yield cur; cur = []
        for (n, rt) in sorted(map(tuple, r["unary"])):
            if n in EXCLUDE:
                continue
            for a in P.get(rt, []):
                cur.append(["u", n, "", rt, "", a])
                if len(cur) >= batch:
                    yield cur; cur = []
        for (n, prec, lt, rt) in sorted(map(tuple, r["binary"])):
            if n in EXCLUDE:
                continue
            L, R = P.get(lt, []), P.get(rt, [])
            if lt == "ANY" and rt == "ANY":
                pairs = list(zip(L, R)) + [(L[0], R[-1]), (L[-1], R[0]), (L[2], R[5])]
            else:
                if len(L) * len(R) <= 4000:
                    pairs = itertools.product(L, R)
                elif lt == "ARRAY" and rt != "ARRAY":
                    # the full pool on the array side against the boundary representatives of the other type, and every
                    # value of the other type against the fixed array shapes (the head of the array pool)
                    pairs = dedup(itertools.chain(itertools.product(L, key_values(rt, R)), itertools.product(L[:40], R)))
                elif rt == "ARRAY" and lt != "ARRAY":
                    pairs = dedup(itertools.chain(itertools.product(key_values(lt, L), R), itertools.product(L, R[:40])))
                else:
                    pairs = itertools.product(L[:76], R[:76])
            for a, b in pairs:
                cur.append(["b", n, lt, rt, a, b])
                if len(cur) >= batch:
                    yield cur; cur = []
        if cur:
            yield cur
    return g


def text_of(c):
    k, n, lt, rt, a, b = c
    if k == "n":
        return n
    if k == "u":
        return "%s (%s)" % (n, b)
    return "(%s) %s (%s)" % (a, n, b)


def setup_scratch():
    os.makedirs(os.path.join(SCRATCH, "sub"), exist_ok=True)
    for name, content in (("f.sqf", b"diag_log 1"), ("sub/f.sqf", b"diag_log 2"), ("one.sqf", b"x"), ("empty.sqf", b""),
                          # files that end inside what looks like the start of a byte order mark
                          ("bom1.sqf", b"\xef"), ("bom2.sqf", b"\xef\xbb"), ("bom3.sqf", b"\x00\x00"), ("bom4.sqf", b"\xfe"),
                          ("bom5.sqf", b"\xff\xff\x00"), ("bom6.sqf", b"\x2b\x2f\x76"), ("bom7.sqf", b"\xfb\xee\x28"), ("bom8.sqf", b"\xef\xbb\xbf")):
        p = os.path.join(SCRATCH, name)
        if not os.path.exists(p):
            open(p, "wb").write(content)


def kind_class(kind):
    """Value-independent class of a crash kind (signatures must not depend on the argument values)."""
    import re
    if kind.startswith("ubsan:"):
        m = kind[6:]
        if "outside the range of representable values" in m:
            return "ubsan:float-cast-overflow"
        if "null pointer" in m or "misaligned address" in m:
            return "ubsan:null-or-wild-pointer"
        if "division by zero" in m:
            return "ubsan:division-by-zero"
        if "overflow" in m:
            return "ubsan:integer-or-pointer-overflow"
        return "ubsan:" + re.sub(r"[0-9]+", "N", m)[:40]
    if kind.startswith("asan:"):
        return {"asan:ABRT": "abort(assertion)", "asan:SEGV": "asan:wild-access"}.get(kind, kind)
    return kind


def run_batch(ws, cases, symbolize=False, patience=1):
    setup_scratch()
    texts = [PRELUDE] + [REFRESH + text_of(c) for c in cases]
    req = {"mode": "eval", "fork": True, "timeout_ms": patience * (20000 + 500 * len(cases)), "texts": texts,
           "conf": {"max_runtime_ms": 200, "ops": "full"}, "tick_us": 1, "config": CONFIG, "maps": [[SCRATCH, "/"]]}
    if symbolize:
        return ws.call(req, variant="asan", max_alloc_mb=512, rss_mb=3072)
    return ws.call(req, variant="asan", max_alloc_mb=512, rss_mb=3072, env_extra_key="nosym")


def fn_of(frame):
    f = frame.split(" /")[0]
    return f.split("(")[0][-80:]


_hot = set()


def check(ws, cases):
    info = {"n": len(cases), "nontrivial": len(cases)}
    if len(cases) > 1 and any(sigof(c) in _hot for c in cases):
        # operators that already crashed in this shard: run their calls one by one, batch the rest
        hot = [c for c in cases if sigof(c) in _hot]
        cold = [c for c in cases if sigof(c) not in _hot]
        viols = []
        for c in hot:
            viols += check(ws, [c])[0]
        if cold:
            viols += check(ws, cold)[0]
        return viols, info
    r = run_batch(ws, cases)
    if r["outcome"] == "ok":
        viols = []
        pre = r["result"]["items"][0]["log"]
        if not any(PRELUDE_OK in m["msg"] for m in pre) or any(m["lvl"] <= 1 for m in pre):
            raise RuntimeError("C09 prelude did not set up the argument pools: %r" % [m["msg"][:150] for m in pre if m["lvl"] <= 1 or "PRELUDE" in m["msg"]][:3])
        for c, it in zip(cases, r["result"]["items"][1:]):
            if it.get("parse_failed"):
                continue    # naming/parse problems are C01's business (eg. the `.` operator)
            if any(m["code"] == 60002 for m in it["log"]):
                viols.append(("C09|%s|instruction-budget" % sigof(c), "call %r did not finish within 2*10^5 instructions" % text_of(c), None, [c]))
        return viols, info
    if len(cases) == 1:
        c = cases[0]
        _hot.add(sigof(c))
        kind = r.get("kind", r["outcome"]) if r["outcome"] == "crash" else r["outcome"]
        # re-run once alone (with symbolisation) before reporting: replay before report
        r2 = run_batch(ws, cases, symbolize=True)
        if r2["outcome"] == "ok":
            return [("C09|%s|nondeterministic" % sigof(c), "call %r failed once (%s) and passed when repeated" % (text_of(c), kind), None, cases)], info
        kind = r2.get("kind", r2["outcome"]) if r2["outcome"] == "crash" else r2["outcome"]
        return [("C09|%s|%s" % (sigof(c), kind_class(kind)), "call %r: %s in %s" % (text_of(c), kind, r2.get("frame", "")[:160]), None, cases)], info
    mid = len(cases) // 2
    v1, _ = check(ws, cases[:mid])
    v2, _ = check(ws, cases[mid:])
    if not v1 and not v2:
        kind = r.get("kind", r["outcome"])
        if r["outcome"] == "timeout" or kind == "timeout":
            # slow but finite calls (20000 diagnostics each) can add up to the batch watchdog: replay the batch with ten times
            # the patience before calling it a hang
            r3 = run_batch(ws, cases, patience=10)
            if r3["outcome"] == "ok":
                return [], info
            kind = r3.get("kind", r3["outcome"])
        return [("C09|batch-only|%s" % kind_class(kind), "batch fails (%s) but no single call of it does: %r" % (kind, [text_of(c) for c in cases][:6]), None, cases)], info
    return v1 + v2, info


def sigof(c):
    k, n, lt, rt, a, b = c
    return {"n": "%s" % n, "u": "%s %s" % (n, rt), "b": "%s %s %s" % (lt, n, rt)}[k]


def spaces(tier):
    return [Space("all-signatures", gen(tier), check, variant="asan",
                  describe="every registered nular/unary/binary signature x argument pools (tier=%s)" % tier)]
