"""C03 - variable scoping: dynamic local lookup, private, namespaces, case-insensitivity.

All programs with a bounded number of variable operations distributed over a bounded nesting of scope
openers are generated, run on the real VM, and every read is compared with an environment-chain reference.
"""
import itertools
from ..engine import Space
from ..ref import sqf_interp as I
from . import c02

PROPERTY = "C03"
LEVEL = "exploration"
VARIANTS = ["fast"]
RULE = ("all operation/scope sequences: locals space (ops on _a/_b: assign, private assign, private string/array, params with / without an input element, read; "
        "openers call/if/forEach/for/while/count/spawn) and globals space (ga/GA/Ga plain, get/setVariable on mission/ui namespace, "
        "allVariables; openers call/with-do/spawn) with <=3 ops + <=2 scopes (quick); thorough: <=4 ops + <=1 scope, <=3 ops + <=2 scopes, <=3 ops + 3 nested scopes; "
        "non-trivial = program has at least one read after a write; distinct by sequence")
ASSUMPTIONS = [
    "excluded (not fixed by the statement): `private` declaration (string/array form) of a name already bound in the same scope",
    "reads of unbound locals yield nil (a warning-level diagnostic is allowed)",
    "spawned code runs after the spawning script reached its end (programs are shorter than one scheduler slice)",
]
DEADLINE_S = {"quick": 420, "thorough": 1500}

L_OPS = ["w", "pw", "ps", "pl", "pr", "pe", "r", "wb", "rb"]
L_OPEN = ["call", "if", "foreach", "for", "while", "whilec", "count", "spawn"]
G_OPS = ["gw", "gr", "Gw", "Gr", "nsw", "nsr", "uiw", "uir", "av"]
G_OPEN = ["call", "withui", "withmission", "spawn", "foreach"]


def skeletons(max_ops, max_scopes, max_depth):
    """Sequences over {'o' (op slot), '(' open, ')' close}, balanced, non-empty scopes contain >=1 item."""
    out = []

    def go(seq, ops, scopes, depth, open_nonempty):
        if depth == 0 and seq:
            out.append(seq)
        if ops < max_ops:
            go(seq + "o", ops + 1, scopes, depth, open_nonempty[:-1] + [True] if open_nonempty else [])
        if scopes < max_scopes and depth < max_depth:
            go(seq + "(", ops, scopes + 1, depth + 1, (open_nonempty[:-1] + [True] if open_nonempty else []) + [False])
        if depth > 0 and open_nonempty[-1]:
            go(seq + ")", ops, scopes, depth - 1, open_nonempty[:-1])
    go("", 0, 0, 0, [])
    # keep only skeletons ending balanced and with at least 1 op
    return sorted(set(s for s in out if "o" in s))


def gen(ops, openers, max_ops, max_scopes, max_depth):
    def g():
        for sk in skeletons(max_ops, max_scopes, max_depth):
            no = sk.count("o")
            ns = sk.count("(")
            for oc in itertools.product(ops, repeat=no):
                if not any(o in ("r", "rb", "gr", "Gr", "nsr", "uir", "av") for o in oc):
                    continue
                for sc in itertools.product(openers, repeat=ns):
                    yield [sk, list(oc), list(sc)]
    return g


# ---------------------------------------------------------------- reference + rendering
class Excluded(Exception):
    pass


class Scope:
    def __init__(self, parent, ns):
        self.vars = {}
        self.parent = parent
        self.ns = ns


def build(case):
    """-> (text, expected main trace, expected traces of spawned scripts [list], nontrivial)"""
    sk, ops, scs = case
    ops = list(ops)
    scs = list(scs)
    ctr = {"v": 10, "id": 0}
    namespaces = {"mission": {}, "ui": {}}
    wrote = [False]
    read_after_write = [False]

    def lookup(scope, name):
        s = scope
        while s is not None:
            if name in s.vars:
                return s.vars[name]
            s = s.parent
        return None

    def do_op(o, scope, out, trace, alloc):
        def nv():
            if "v" not in alloc:
                ctr["v"] += 1
                alloc["v"] = ctr["v"]
            return alloc["v"]

        def nid():
            if "id" not in alloc:
                ctr["id"] += 1
                alloc["id"] = ctr["id"]
            return alloc["id"]

        if o in ("w", "wb"):
            name = "_a" if o == "w" else "_b"
            v = nv()
            out.append("%s = %d" % (name if v % 2 else name.upper(), v))
            s = scope
            while s is not None and name not in s.vars:
                s = s.parent
            (s or scope).vars[name] = v
            wrote[0] = True
        elif o == "pw":
            v = nv()
            out.append("private _a = %d" % v)
            scope.vars["_a"] = v
            wrote[0] = True
        elif o == "ps":
            if "_a" in scope.vars:
                raise Excluded()
            out.append('private "_a"')
            scope.vars["_a"] = None
        elif o == "pl":
            if "_a" in scope.vars or "_b" in scope.vars:
                raise Excluded()
            out.append('private ["_A", "_b"]')
            scope.vars["_a"] = None
            scope.vars["_b"] = None
        elif o == "pr":
            v = nv()
            out.append('[%d] params ["_a"]' % v)
            scope.vars["_a"] = v
            wrote[0] = True
        elif o == "pe":
            # no input element and no default: the name is still bound (to nil) in the CURRENT scope
            out.append('[] params ["_a"]')
            scope.vars["_a"] = None
        elif o in ("r", "rb"):
            name = "_a" if o == "r" else "_b"
            i = nid()
            out.append("diag_log str [%d, [%s]]" % (i, name))
            trace.append([i, [lookup(scope, name)]])
            if wrote[0]:
                read_after_write[0] = True
        elif o in ("gw", "Gw"):
            v = nv()
            out.append("%s = %d" % ("ga" if o == "gw" else "GA", v))
            namespaces[scope.ns]["ga"] = v
            wrote[0] = True
        elif o in ("gr", "Gr"):
            i = nid()
            out.append("diag_log str [%d, [%s]]" % (i, "ga" if o == "gr" else "Ga"))
            trace.append([i, [namespaces[scope.ns].get("ga")]])
            if wrote[0]:
                read_after_write[0] = True
        elif o in ("nsw", "uiw"):
            v = nv()
            ns = "mission" if o == "nsw" else "ui"
            out.append('%sNamespace setVariable ["Ga", %d]' % (ns, v))
            namespaces[ns]["ga"] = v
            wrote[0] = True
        elif o in ("nsr", "uir"):
            i = nid()
            ns = "mission" if o == "nsr" else "ui"
            out.append('diag_log str [%d, [%sNamespace getVariable "gA"]]' % (i, ns))
            trace.append([i, [namespaces[ns].get("ga")]])
            if wrote[0]:
                read_after_write[0] = True
        elif o == "av":
            i = nid()
            out.append('diag_log str [%d, "ga" in (allVariables missionNamespace), "ga" in (allVariables uiNamespace)]' % i)
            trace.append([i, namespaces["mission"].get("ga") is not None, namespaces["ui"].get("ga") is not None])
        else:
            raise ValueError(o)

    spawned = []   # list of (items, ns_at_spawn) executed after main

    # Simplest faithful approach: first turn the skeleton into a tree, then interpret + render it.
    def parse(pos):
        items = []
        while pos < len(sk) and sk[pos] != ")":
            if sk[pos] == "o":
                items.append(("op", ops.pop(0), {}))
                pos += 1
            else:
                kind = scs.pop(0)
                inner, pos = parse(pos + 1)
                items.append(("scope", kind, inner, {}))
                pos += 1  # skip ')'
        return items, pos

    tree, _ = parse(0)

    def run(items, scope, trace):
        """Interpret items in `scope`; returns rendered statement list. Rendering must be identical for every
        iteration of a loop body, so values/ids are allocated by position on the first interpretation only:
        loop bodies therefore use writes whose value is recorded per iteration via the iteration variable."""
        out = []
        for it in items:
            if it[0] == "op":
                do_op(it[1], scope, out, trace, it[2])
            else:
                kind, inner = it[1], it[2]
                if kind == "call":
                    body = run(inner, Scope(scope, scope.ns), trace)
                    out.append("call {%s}" % "; ".join(body))
                elif kind == "if":
                    body = run(inner, Scope(scope, scope.ns), trace)
                    out.append("if (true) then {%s}" % "; ".join(body))
                elif kind in ("foreach", "for", "while", "whilec", "count"):
                    # two iterations, each in a fresh scope (bindings of an iteration end with it); ids and
                    # values are allocated per node, so both interpretations render the same text
                    body = run(inner, Scope(scope, scope.ns), trace)
                    body2 = run(inner, Scope(scope, scope.ns), trace)
                    assert body == body2
                    if kind == "foreach":
                        out.append("{%s} forEach [0, 0]" % "; ".join(body))
                    elif kind == "for":
                        out.append('for "_i" from 1 to 2 do {%s}' % "; ".join(body))
                    elif kind == "while":
                        if "c" not in it[3]:
                            ctr["id"] += 1
                            it[3]["c"] = ctr["id"]
                        c = it[3]["c"]
                        out.append("_c%d = 0; while {_c%d < 2} do {_c%d = _c%d + 1; %s}" % (c, c, c, c, "; ".join(body)))
                    elif kind == "whilec":
                        # the condition block binds locals of its own: they end with the condition block and are invisible to the body
                        if "c" not in it[3]:
                            ctr["id"] += 1
                            it[3]["c"] = ctr["id"]
                        c = it[3]["c"]
                        out.append("_c%d = 0; while {private _a = 900; private _B = 901; _c%d < 2} do {_c%d = _c%d + 1; %s}" % (c, c, c, c, "; ".join(body)))
                    else:
                        out.append("{%s; true} count [0, 0]" % "; ".join(body))
                elif kind in ("withui", "withmission"):
                    ns = "ui" if kind == "withui" else "mission"
                    body = run(inner, Scope(scope, ns), trace)
                    out.append("with %sNamespace do {%s}" % (ns, "; ".join(body)))
                elif kind == "spawn":
                    strace = []
                    spawned.append((inner, strace, scope.ns))
                    if "k" not in it[3]:
                        it[3]["k"] = len(spawned) - 1
                    out.append("[] spawn {<<SPAWN%d>>}" % it[3]["k"])
                else:
                    raise ValueError(kind)
        return out

    main_trace = []
    top = Scope(None, "mission")
    out = run(tree, top, main_trace)
    text = "; ".join(out)
    # spawned scripts run after the main script, in spawn order, with no access to the starter's locals
    k = 0
    straces = []
    while k < len(spawned):
        inner, strace, ns = spawned[k]
        body = run(inner, Scope(None, "mission"), strace)   # globals: default namespace (spawn does not inherit with-do)
        text = text.replace("<<SPAWN%d>>" % k, "; ".join(body))
        straces.append(strace)
        k += 1
    return text, main_trace, straces, read_after_write[0]


def check(ws, case):
    try:
        text, main_trace, straces, nontrivial = build(case)
    except Excluded:
        return [], {"n": 0, "nontrivial": 0, "excluded": 1}
    r = c02.run_program(ws, text, "fast")
    kind, trace, errors = c02.observe(r)
    info = {"n": 1, "nontrivial": 1 if nontrivial else 0}
    feats = sorted(set(case[1]) | set(case[2]))
    if kind != "ok":
        return [("C03|%s|%s" % (kind.split(":")[0], "+".join(feats)), "%s: %s" % (kind, text), None, case)], info
    got = {}
    for t in trace:
        if isinstance(t, list) and t:
            got.setdefault(t[0], []).append(I.norm(t))
    exp_all = main_trace + [e for st in straces for e in st]
    # order within each script
    ids_main = [e[0] for e in main_trace]
    sp_ids = set(e[0] for st in straces for e in st)
    seq = [t[0] for t in trace if isinstance(t, list) and t and t[0] in ids_main and t[0] not in sp_ids]
    if seq != [i for i in ids_main if i not in sp_ids]:
        return [("C03|read-order|" + "+".join(feats), "reads of the main script out of order / missing: got ids %r expected %r in %s" % (seq, ids_main, text), None, case)], info
    want = {}
    for e in exp_all:
        want.setdefault(e[0], []).append(I.norm(e))
    for e in exp_all:
        g = got.get(e[0], [])
        if g != want[e[0]]:
            e = want[e[0]]
            which = "spawned" if e[0][0] not in ids_main else "main"
            sig = signature(case, e, g, which)
            return [(sig, "read %d: got %r expected %r in: %s" % (e[0][0], g, e, text), None, case)], info
    if errors:
        return [("C03|error-log|" + "+".join(feats), "%s in %s" % (errors[0][:120], text), None, case)], info
    return [], info


def signature(case, e, g, which):
    sk, ops, scs = case
    if ("withui" in scs or "withmission" in scs) and any(s in scs for s in ("call", "foreach", "spawn")) and sk.count("(") >= 2:
        return "C03|global-in-scope-nested-in-with-do|namespace-of-with-lost"
    return "C03|%s-read|ops=%s|scopes=%s" % (which, "+".join(sorted(set(ops))), "+".join(sorted(set(scs))) or "none")


def spaces(tier):
    if tier == "quick":
        return [Space("locals-1scope", gen(L_OPS, L_OPEN, 3, 1, 1), check, variant="fast", describe="locals: <=3 ops, <=1 scope, all 8 openers"),
                Space("locals-2scopes", gen(["w", "pw", "ps", "pr", "r", "rb", "wb"], ["call", "foreach", "spawn", "whilec"], 3, 2, 2), check, variant="fast",
                      describe="locals: <=3 ops, 2 scopes (nested or sequential), 4 openers"),
                Space("globals", gen(G_OPS, ["call", "withui", "withmission", "spawn"], 3, 2, 2), check, variant="fast", describe="globals/namespaces: <=3 ops, <=2 scopes (call, with uiNamespace, with missionNamespace, spawn), depth<=2")]
    return [Space("locals-4ops-1scope", gen(L_OPS, L_OPEN, 4, 1, 1), check, variant="fast", describe="locals: <=4 ops, <=1 scope, all 8 openers"),
            Space("locals-3ops-2scopes", gen(L_OPS, L_OPEN, 3, 2, 2), check, variant="fast", describe="locals: <=3 ops, <=2 scopes (nested or sequential), all 8 openers"),
            Space("locals-deep", gen(["w", "pw", "ps", "r"], ["call", "foreach", "spawn", "if"], 3, 3, 3), check, variant="fast", describe="locals: <=3 ops, 3 scopes, depth 3"),
            Space("globals-4ops-1scope", gen(G_OPS, G_OPEN, 4, 1, 1), check, variant="fast", describe="globals/namespaces: <=4 ops, <=1 scope"),
            Space("globals-3ops-2scopes", gen(G_OPS, G_OPEN, 3, 2, 2), check, variant="fast", describe="globals/namespaces: <=3 ops, <=2 scopes"),
            Space("globals-deep", gen(["gw", "Gr", "uiw", "uir", "nsr"], G_OPEN, 3, 3, 3), check, variant="fast", describe="globals: <=3 ops, 3 scopes, depth 3")]
