"""C11 - execution bounds hold: max runtime per run, loop cap in unscheduled code.

(a) Histories of runs on ONE VM under a virtual clock (every clock query advances time by a fixed tick; idle gaps are
inserted between runs): non-terminating / long-running programs of every kind must be ended by the limit within a
small slack, reported (MaximumRuntimeReached) and leave the VM empty; a short terminating program must complete
normally after any history and any idle gap (the limit is measured from the start of that run).
(b) Loop cap: every configured maximum x body kind x {unscheduled, scheduled}: iteration count = min(cap, natural).
"""
import itertools
from ..engine import Space
from ..ref import sqf_interp as I

PROPERTY = "C11"
LEVEL = "model_checking"
VARIANTS = ["fast"]
RULE = ("histories: all sequences of <=2 (quick) / <=3 (thorough) runs over 17 program kinds x 4 idle gaps, x 3 clock tick sizes, limit 50 ms; "
        "states = distinct (program, gap, position) run contexts, transitions = runs; loop cap: 5 caps x 7 bodies x 2 scheduling modes; "
        "non-trivial = history contains a non-terminating program")
ASSUMPTIONS = [
    "time is virtual: every system_clock::now() call advances it by the tick; slack allowed = 4 ticks + 1 ms",
    "sleep-only phases: the statement requires the run to end within the limit provided each operator call terminates; sleep n is such a call, "
    "so a run whose scripts all sleep longer than the limit must still be ended by the limit",
]
DEADLINE_S = {"quick": 420, "thorough": 1500}

M_MS = 50
PROGS = {
    "control": ("x = 0; for \"_i\" from 1 to 10 do { x = x + 1 }; diag_log str [\"done\", x]", False, True),
    "control-scheduled": ("x = 0; { x = x + _x } forEach [1,2,3]; diag_log str [\"done\", x]", True, True),
    "while-true-empty": ("while {true} do {}", True, False),
    "while-true-body": ("while {true} do { x = 1 }", True, False),
    "nested-while": ("while {true} do { while {true} do { y = 2 } }", True, False),
    "for-long": ("for \"_i\" from 0 to 1e9 do { z = 3 }", False, False),
    "waituntil-sleeping": ("waitUntil { sleep 0.2; false }", True, False),
    "recursion": ("f = { call f }; call f", False, False),
    "mutual-spawn": ("g = { [] spawn g; [] spawn g }; [] spawn g", True, False),
    "growing-foreach": ("a = [1]; { a pushBack 1 } forEach a", False, False),
    "sleep-loop": ("while {true} do { sleep 1 }", True, False),
    # loops that restart without executing a single instruction (empty body / empty condition): the frame restarts itself
    # over and over, so the limit has to be looked at there too
    "for-step0-empty": ("for \"_i\" from 0 to 1 step 0 do {}", False, False),
    "for-step0-empty-scheduled": ("for \"_i\" from 0 to 1 step 0 do {}", True, False),
    "for-long-empty": ("for \"_i\" from 0 to 1e9 do {}", False, False),
    "for-step0-body": ("for \"_i\" from 0 to 1 step 0 do { q = 1 }", False, False),
    "waituntil-false": ("waitUntil { false }", False, False),
    "waituntil-false-scheduled": ("waitUntil { false }", True, False),
}
GAPS_MS = [0, M_MS // 2, M_MS + 1, 10 * M_MS]
TICKS_US = [10, 100, 500]


def gen_hist(maxlen, ticks):
    def g():
        names = list(PROGS)
        for tick in ticks:
            for n in range(1, maxlen + 1):
                for seq in itertools.product(names, repeat=n):
                    if n > 1 and all(PROGS[s][2] for s in seq[:-1]) and n > 2:
                        continue
                    for gaps in itertools.product(GAPS_MS, repeat=n):
                        if n > 1 and len(set(gaps)) > 2:
                            continue
                        yield [tick, list(seq), list(gaps)]
    return g


def check_hist(ws, case):
    tick, seq, gaps = case
    steps = [{"op": "vm", "id": 0, "max_runtime_ms": M_MS, "ops": "full"}]
    for name, gap in zip(seq, gaps):
        text, sched, terminates = PROGS[name]
        steps.append({"op": "clock", "add_us": gap * 1000})
        steps.append({"op": "sqf", "id": 0, "text": text, "suspendable": sched, "path": name + ".sqf"})
        steps.append({"op": "exec", "id": 0, "action": "start"})
        steps.append({"op": "exec", "id": 0, "action": "abort"})
        steps.append({"op": "state", "id": 0})
    r = ws.call({"mode": "steps", "fork": True, "timeout_ms": 60000, "clock": {"tick_us": tick}, "steps": steps}, variant="fast")
    info = {"n": 1, "nontrivial": 1 if any(not PROGS[s][2] for s in seq) else 0, "states": len(seq), "transitions": len(seq), "executions": 1}
    if r["outcome"] != "ok":
        return [("C11|history|%s|%s" % (seq[-1], r.get("kind", r["outcome"])), "history %r gaps %r tick %dus: %s (a run did not end)" % (seq, gaps, tick, r.get("kind", r["outcome"])), None, case)], info
    res = r["result"]
    slack_us = 4 * tick + 1000
    for i, (name, gap) in enumerate(zip(seq, gaps)):
        base = 1 + 5 * i
        ex = res["steps"][base + 2]
        st = res["steps"][base + 4]["vm"]
        logs = [m for m in res["log"] if m["step"] == base + 2]
        hit = any(m["code"] == 60002 for m in logs)
        text, sched, terminates = PROGS[name]
        prev = seq[i - 1] if i else "fresh-vm"
        ctx = "prev=%s|gap=%s" % ("nonterminating" if i and not PROGS[prev][2] else ("control" if i else "fresh-vm"), "0" if gap == 0 else ("<M" if gap < M_MS else ">M"))
        if terminates:
            done = any(m["code"] == 60019 and "done" in m["msg"] for m in logs)
            if hit or not done:
                return [("C11|history|short-run-aborted|%s" % ctx, "history %r gaps %r tick %dus: run %d (%s) is short but was %s" % (
                    seq, gaps, tick, i, name, "aborted by the time limit" if hit else "not completed"), None, case)], info
        else:
            if ex["dt_us"] > M_MS * 1000 + slack_us:
                return [("C11|history|limit-exceeded|%s|%s" % (name, ctx), "history %r gaps %r tick %dus: run %d (%s) consumed %.1f ms of virtual time, limit %d ms" % (
                    seq, gaps, tick, i, name, ex["dt_us"] / 1000.0, M_MS), None, case)], info
            if not hit:
                return [("C11|history|abort-not-reported|%s|%s" % (name, ctx), "history %r gaps %r tick %dus: run %d (%s) ended (r=%s) without MaximumRuntimeReached" % (
                    seq, gaps, tick, i, name, ex["r"]), None, case)], info
            if ex["dt_us"] < M_MS * 1000 - slack_us and gap == 0 and i == 0:
                return [("C11|history|aborted-too-early|%s" % name, "history %r tick %dus: run %d (%s) aborted after %.1f ms, limit %d ms" % (seq, tick, i, name, ex["dt_us"] / 1000.0, M_MS), None, case)], info
        if st["state"] != "empty" or st["contexts"]:
            return [("C11|history|vm-not-empty|%s" % name, "history %r: after run %d (%s) state=%s contexts=%d" % (seq, i, name, st["state"], len(st["contexts"])), None, case)], info
    return [], info


def gen_continued(ticks):
    for tick in ticks:
        for first in ("error", "steps"):
            for gap in GAPS_MS:
                for second in ("control", "control-scheduled", "while-true-body", "for-long"):
                    yield [tick, first, gap, second]


def check_continued(ws, case):
    """The limit is measured from the start of EACH run, also when the VM was left halted (failed run that was not aborted, a few
    steps of a debugger) longer ago than the limit."""
    tick, first, gap, second = case
    steps = [{"op": "vm", "id": 0, "max_runtime_ms": M_MS, "ops": "full"},
             {"op": "sqf", "id": 0, "text": 'a = 1;\nb = 1 + "x";\nc = 3' if first == "error" else "a = 1; b = 2; c = 3; d = 4", "path": "first.sqf"}]
    steps += [{"op": "exec", "id": 0, "action": "start"}] if first == "error" else [{"op": "exec", "id": 0, "action": "assembly_step"}] * 2
    steps.append({"op": "clock", "add_us": gap * 1000})
    text, sched, terminates = PROGS[second]
    steps.append({"op": "sqf", "id": 0, "text": text, "suspendable": sched, "path": second + ".sqf"})
    k = len(steps)
    steps.append({"op": "exec", "id": 0, "action": "start"})
    r = ws.call({"mode": "steps", "fork": True, "timeout_ms": 60000, "clock": {"tick_us": tick}, "steps": steps}, variant="fast")
    info = {"n": 1, "nontrivial": 1, "states": 2, "transitions": 2, "executions": 1}
    ctx = "after=%s|gap=%s" % (first, "0" if gap == 0 else ("<M" if gap < M_MS else ">M"))
    if r["outcome"] != "ok":
        return [("C11|continued|%s|%s" % (r.get("kind", r["outcome"]), ctx), "%r: %s" % (case, r.get("kind", r["outcome"])), None, case)], info
    ex = r["result"]["steps"][k]
    logs = [m for m in r["result"]["log"] if m["step"] == k]
    hit = any(m["code"] == 60002 for m in logs)
    slack_us = 4 * tick + 1000
    done = any(m["code"] == 60019 and "done" in m["msg"] for m in logs)
    if first == "error" and not hit and (not done if terminates else True):
        # what start does with the rest of the failed script is not C11's business (it may fail again at once): only a run
        # that the LIMIT ended, or that ran to the limit, is judged after a failed run
        if terminates or ex["dt_us"] < M_MS * 1000 - slack_us:
            return [], info
    if terminates:
        if hit or not done:
            return [("C11|continued|short-run-aborted|%s" % ctx, "%r: the run started %d ms after the VM was left halted is short but was %s" % (
                case, gap, "aborted by the time limit" if hit else "not completed"), None, case)], info
    else:
        if ex["dt_us"] > M_MS * 1000 + slack_us or not hit:
            return [("C11|continued|limit-not-applied|%s" % ctx, "%r: run consumed %.1f ms, limit reported: %s" % (case, ex["dt_us"] / 1000.0, hit), None, case)], info
        if ex["dt_us"] < M_MS * 1000 - slack_us:
            return [("C11|continued|aborted-too-early|%s" % ctx, "%r: run aborted after %.1f ms, limit %d ms" % (case, ex["dt_us"] / 1000.0, M_MS), None, case)], info
    return [], info


CAPS = [1, 2, 3, 10, 10000]
BODIES = {
    "empty": "",
    "one-statement": "n = n + 1",
    "exitwith-at-5": "n = n + 1; if (n == 5) exitWith {}",
    "nested-while": "n = n + 1; private _k = 0; while {_k < 2} do { _k = _k + 1 }",
    "call": "call { n = n + 1 }",
    "counter-in-cond": "",
    "natural-3": "n = n + 1",
}


def gen_caps():
    for cap in CAPS:
        for b in BODIES:
            for sched in (False, True):
                yield [cap, b, sched]


def check_cap(ws, case):
    cap, b, sched = case
    body = BODIES[b]
    if b == "counter-in-cond":
        text = "n = 0; while { n = n + 1; true } do {}; diag_log str [n]"
        natural = None
    elif b == "empty":
        text = "n = 0; c = 0; while { c = c + 1; true } do {}; diag_log str [c]"
        natural = None
    elif b == "natural-3":
        text = "n = 0; while { n < 3 } do { %s }; diag_log str [n]" % body
        natural = 3
    elif b == "exitwith-at-5":
        text = "n = 0; while { true } do { %s }; diag_log str [n]" % body
        natural = 5
    else:
        text = "n = 0; while { true } do { %s }; diag_log str [n]" % body
        natural = None
    if sched and natural is None:
        # unbounded in scheduled code by design: bounded here by the runtime limit only, nothing to judge
        return [], {"n": 0, "nontrivial": 0}
    steps = [{"op": "vm", "id": 0, "loop_cap": cap, "max_runtime_ms": 0, "ops": "full"},
             {"op": "sqf", "id": 0, "text": text, "suspendable": sched},
             {"op": "exec", "id": 0, "action": "start"}]
    r = ws.call({"mode": "steps", "fork": True, "timeout_ms": 20000, "clock": {"tick_us": 1}, "steps": steps}, variant="fast")
    info = {"n": 1, "nontrivial": 1, "states": 1, "transitions": 1, "executions": 1}
    if r["outcome"] != "ok":
        return [("C11|loop-cap|body=%s|%s|%s" % (b, "scheduled" if sched else "unscheduled", r.get("kind", r["outcome"])),
                 "cap %d body %s: %s (loop did not stop)" % (cap, b, r.get("kind", r["outcome"])), None, case)], info
    out = [m["msg"].split("[DIAG_LOG] ", 1)[1] for m in r["result"]["log"] if m["code"] == 60019]
    if not out:
        return [("C11|loop-cap|body=%s|no-result" % b, "cap %d body %s: no result %s" % (cap, b, [m["msg"][:80] for m in r["result"]["log"]][:2]), None, case)], info
    n = int(I.parse_value(out[0])[0])
    if sched:
        want = natural
        ok = n == want
    else:
        want = cap if natural is None else min(cap, natural)
        # the condition may be evaluated once more than the body runs
        ok = n == want or (b in ("counter-in-cond", "empty") and n in (want, want + 1))
    if not ok:
        return [("C11|loop-cap|body=%s|%s|wrong-count" % (b, "scheduled" if sched else "unscheduled"),
                 "cap %d body %s %s: %d iterations, expected %s" % (cap, b, "scheduled" if sched else "unscheduled", n, want), None, case)], info
    return [], info


def spaces(tier):
    q = tier == "quick"
    return [Space("run-histories", gen_hist(2 if q else 3, [100] if q else TICKS_US), check_hist, variant="fast", describe="histories of runs with idle gaps under the virtual clock"),
            Space("single-runs-all-ticks", gen_hist(1, TICKS_US), check_hist, variant="fast", describe="every program alone under every tick size"),
            Space("continued-after-halt", lambda: gen_continued([100] if q else TICKS_US), check_continued, variant="fast",
                  describe="a run started on a VM that was left halted (failed run not aborted / two assembly steps) 0 .. 10 limits ago"),
            Space("loop-cap", gen_caps, check_cap, variant="fast", describe="caps x bodies x scheduling mode")]
