"""C15 - config tree: values read back, inheritance lookup, merge / delete / append, acyclic.

Config texts are generated from a small grammar (three class names, nested classes, single inheritance from
classes declared at the same or an outer level, redefinition across 1-2 loaded files, delete, array append,
forward declarations, self- and mutually-referring bases); for every resulting tree all lookups over a fixed
path / entry alphabet are evaluated on the real VM (each under a watchdog) and compared with a reference tree.
"""
import itertools
from ..engine import Space
from ..ref import sqf_interp as I

PROPERTY = "C15"
LEVEL = "model_checking"
VARIANTS = ["asan", "fast"]
RULE = ("histories of 1-2 loaded config files: quick = one file of <=2 top-level items (class A/B/C with optional base and one of 13 bodies, forward "
        "declarations); thorough adds 3-item files and two-file histories (2+1 items) over a reduced alphabet (4 bodies) and 1+1 items over the full one; states = distinct reference trees reached, transitions = file loads; for each state all "
        "queries (>> paths x entry names x accessors, inheritsFrom, configHierarchy, count/select) are compared; non-trivial = tree has a base link "
        "or a re-opened class")
ASSUMPTIONS = [
    "outside the alphabet (not fixed by the statement): base classes that are only reachable through inheritance of the enclosing class, "
    "re-opening a class with a different base, the position (not the presence) of an entry that is defined again after a `delete`, the printed name of the root, `+=` on an "
    "entry the class defines itself, letter case of entry names",
    "a class whose base cannot be resolved, or that names itself (directly or through a cycle) as base, must not make any lookup diverge; its "
    "content is then only judged for own entries",
]
DEADLINE_S = {"quick": 540, "thorough": 1700}
PREP = {"mode": "prepare", "conf": {"ops": "full"}}     # VM with all operators built once per worker, adopted by each forked case

BODIES = {
    "empty": "",
    "x1": "x = 1;",
    "x2y": 'x = 2; y = "s";',
    "arr": "arr[] = {1, {2, \"a\"}, 3};",
    "arr+": "arr[] += {4};",
    "delx": "delete x;",
    "in": "class In { x = 5; z = 6; };",
    "in-inherit": "class In { z = 1; }; class In2 : In { w = 2; };",
    "in-from-outer": "class In : A { q = 7; };",
    "num-neg": "x = -1.5; big = 100000;",
    "str-esc": 'y = "a""b"; t = "x y";',
    "arr-nested": "arr[] = {{1, 2}, {}, {{3}}};",
    # entry names that begin like the keywords
    "kw-names": "class_x = 1; delete1 = 2; classes = 3; class class1 { deleted = 4; };",
}
NAMES = ["A", "B", "C"]


def items():
    out = []
    for n in NAMES:
        out.append(("fwd", n))
        for base in [None] + NAMES + ["Missing"]:
            for b in BODIES:
                out.append(("class", n, base, b))
    return out


def render_item(it):
    if it[0] == "fwd":
        return "class %s;" % it[1]
    _, n, base, b = it
    return "class %s%s { %s };" % (n, " : " + base if base else "", BODIES[b])


def core_items():
    return [i for i in items() if i[0] == "fwd" or i[2] in (None, "A", "B") or (i[2] == "Missing" and i[3] == "x1") or (i[2] == i[1] and i[3] in ("x1", "empty")) or (i[2] == "C" and i[3] == "x1")]


def reduced_items(names=("A", "B", "C"), nested=False):
    """Alphabet for longer sequences: the bodies that interact across items (plain value, inherited array, append, delete)."""
    out = []
    for i in core_items():
        if i[1] not in names:
            continue
        if i[0] == "fwd" or (i[2] in ("A", "B", None) and i[3] in ("x1", "arr+", "delx") + (("in-inherit", "in-from-outer") if nested else ())) or (i[2] is None and i[3] == "arr") or (i[2] in ("Missing", i[1]) and i[3] == "x1"):
            out.append(i)
    return out


def gen(nitems, nfiles):
    # keep the alphabet tractable: bodies x bases reduced per tier through sampling-free pruning: one base set per name
    def g():
        core = core_items()
        for nf in range(1, nfiles + 1):
            for files in itertools.product(list(itertools.chain.from_iterable(itertools.product(core, repeat=k) for k in range(1, nitems + 1))), repeat=nf):
                if nf == 2 and (len(files[0]) > 1 and len(files[1]) > 1) and nitems > 1:
                    continue   # two-file histories: at most one multi-item file
                yield [[list(i) for i in f] for f in files]
    return g


def gen_three():
    red = reduced_items(nested=True)
    for seq in itertools.product(red, repeat=3):
        yield [[list(i) for i in seq]]


def gen_three_delete():
    """3-item files over names A, B in which `delete` occurs: the orders in which a delete, the entry it hides and the
    base link between the two classes can be read (delete first, entry arriving later through a re-opened base, ...)."""
    red = reduced_items(("A", "B"))
    for seq in itertools.product(red, repeat=3):
        if any(i[0] == "class" and i[3] == "delx" for i in seq):
            yield [[list(i) for i in seq]]


def gen_two_files():
    core = core_items()
    for a, b in itertools.product(core, repeat=2):
        yield [[list(a)], [list(b)]]
    red = reduced_items(("A", "B"))
    for a, b, c in itertools.product(red, repeat=3):
        yield [[list(a), list(b)], [list(c)]]


# ------------------------------------------------------------------ reference tree
class Node:
    def __init__(self, name, parent):
        self.name, self.parent = name, parent
        self.entries = {}      # name(lower) -> ("num"|"str"|"arr"|"class", value | Node), insertion ordered
        self.order = []
        self.base = None
        self.deleted = set()
        self.has_delete = False
        self.broken_base = False

    def ancestors(self):
        seen, n = [], self.base
        while n is not None and n not in seen:
            seen.append(n)
            n = n.base
        return seen


class Excluded(Exception):
    pass


def lookup(node, name, depth=0):
    if depth > 20:
        return None
    k = name.lower()
    if k in node.entries:
        return node.entries[k]
    if k in node.deleted:
        return None
    if node.base is not None and not node.broken_base:
        return lookup(node.base, name, depth + 1)
    return None


def resolve_base(scope, name):
    s = scope
    while s is not None:
        e = s.entries.get(name.lower())
        if e and e[0] == "class":
            return e[1]
        s = s.parent
    return None


def parse_body(text):
    """Tiny parser for the BODIES alphabet -> list of statements."""
    out = []
    import re
    pos = 0
    toks = re.findall(r'"(?:[^"]|"")*"|[A-Za-z_][A-Za-z0-9_]*|-?\d+(?:\.\d+)?|\[\]|\+=|[{};:=,]', text)

    def value(i):
        t = toks[i]
        if t == "{":
            arr = []
            i += 1
            while toks[i] != "}":
                v, i = value(i)
                arr.append(v)
                if toks[i] == ",":
                    i += 1
            return arr, i + 1
        if t.startswith('"'):
            return t[1:-1].replace('""', '"'), i + 1
        return float(t), i + 1

    def stmts(i):
        res = []
        while i < len(toks) and toks[i] != "}":
            if toks[i] == "class":
                name = toks[i + 1]
                i += 2
                base = None
                if toks[i] == ":":
                    base = toks[i + 1]
                    i += 2
                if toks[i] == ";":
                    res.append(("fwd", name))
                    i += 1
                    continue
                inner, i = stmts(i + 1)
                i += 1   # }
                if i < len(toks) and toks[i] == ";":
                    i += 1
                res.append(("class", name, base, inner))
            elif toks[i] == "delete":
                res.append(("delete", toks[i + 1]))
                i += 3
            else:
                name = toks[i]
                i += 1
                is_arr = toks[i] == "[]"
                if is_arr:
                    i += 1
                op = toks[i]
                v, i = value(i + 1)
                i += 1   # ;
                res.append(("arr+" if op == "+=" else ("arr" if is_arr else "val"), name, v))
        return res, i
    return stmts(0)[0]


def apply(node, stmts):
    for st in stmts:
        if st[0] == "fwd":
            if st[1].lower() not in node.entries:
                c = Node(st[1], node)
                node.entries[st[1].lower()] = ("class", c)
                node.order.append(st[1])
        elif st[0] == "class":
            _, name, base, inner = st
            ex = node.entries.get(name.lower())
            if ex and ex[0] == "class":
                c = ex[1]
                reopened = True
            else:
                c = Node(name, node)
                reopened = False
            if base is not None:
                if reopened and getattr(c, "base_name", None) is not None and c.base_name.lower() != base.lower():
                    raise Excluded()    # re-opening with a different base (also when the first one did not resolve)
                c.base_name = base
                b = resolve_base(node, base) if not (base.lower() == name.lower() and not reopened) else None
                if b is None and base.lower() == name.lower() and reopened:
                    b = c
                if b is None:
                    c.broken_base = True
                elif reopened and c.base is not None and c.base is not b:
                    raise Excluded()
                elif b is c or c in b.ancestors() or b is c:
                    c.broken_base = True      # would be cyclic: must not be followed
                else:
                    c.base = b
                    c.broken_base = False    # (re)bound: `class A : B` written before B existed, re-opened as `class A : B` afterwards
            if not reopened:
                node.entries[name.lower()] = ("class", c)
                node.order.append(name)
            c.reopened = getattr(c, "reopened", False) or reopened
            apply(c, inner)
        elif st[0] == "delete":
            node.deleted.add(st[1].lower())
            node.has_delete = True
            if st[1].lower() in node.entries:
                del node.entries[st[1].lower()]
                node.order = [o for o in node.order if o.lower() != st[1].lower()]
        elif st[0] in ("val", "arr"):
            kind = "arr" if st[0] == "arr" else ("str" if isinstance(st[2], str) else "num")
            if st[1].lower() not in node.entries:
                node.order.append(st[1])
            node.entries[st[1].lower()] = (kind, st[2])
            node.deleted.discard(st[1].lower())
        elif st[0] == "arr+":
            if st[1].lower() in node.entries:
                raise Excluded()   # += on an entry the class already defines itself: not fixed by the statement
            inherited = lookup(node, st[1])
            basev = list(inherited[1]) if inherited and inherited[0] == "arr" else []
            if st[1].lower() not in node.entries:
                node.order.append(st[1])
            node.entries[st[1].lower()] = ("arr", basev + st[2])


def build_ref(files):
    root = Node("", None)
    for f in files:
        text = " ".join(render_item(tuple(i)) for i in f)
        apply(root, parse_body(text))
    return root


def canon(node, depth=0):
    return (node.name, tuple((k, v[0], canon(v[1], depth + 1) if v[0] == "class" else repr(v[1])) for k, v in node.entries.items()),
            node.base.name if node.base else None, tuple(sorted(node.deleted)))


PATHS = [["A"], ["B"], ["C"], ["A", "In"], ["B", "In"], ["C", "In"], ["A", "In2"], ["B", "In2"], ["A", "Nope"]]
ENTRIES = ["x", "y", "z", "w", "q", "arr", "big", "t", "In", "missing", "class_x", "delete1", "classes", "class1"]


def sqf_path(p):
    return "configFile" + "".join(' >> "%s"' % s for s in p)


def queries(root):
    """-> list of (label, sqf expression, expected python value or None if not judged)"""
    qs = []
    for p in PATHS:
        node = root
        for seg in p:
            e = lookup(node, seg) if node is not None else None
            node = e[1] if e and e[0] == "class" else None
        qs.append(("isClass " + ">>".join(p), "isClass (%s)" % sqf_path(p), node is not None))
        if node is None:
            continue
        broken = node.broken_base or any(a.broken_base for a in node.ancestors())
        # enumeration through the iterating operators terminates (content judged through count/select below)
        qs.append(("terminates configClasses " + ">>".join(p), 'count ("true" configClasses (%s))' % sqf_path(p), None))
        qs.append(("terminates configProperties " + ">>".join(p), 'count (configProperties [%s])' % sqf_path(p), None))
        for en in ENTRIES:
            e = lookup(node, en)
            own = en.lower() in node.entries
            if broken and not own:
                # content through an unresolved / cyclic base is not judged, termination is
                qs.append(("terminates %s>>%s" % (">>".join(p), en), "isNull (%s >> \"%s\")" % (sqf_path(p), en), None))
                continue
            ex = sqf_path(p) + ' >> "%s"' % en
            kind = e[0] if e else None
            qs.append(("kind %s>>%s" % (">>".join(p), en), "[isNull (%s), isNumber (%s), isText (%s), isArray (%s), isClass (%s)]" % (ex, ex, ex, ex, ex),
                       [e is None, kind == "num", kind == "str", kind == "arr", kind == "class"]))
            if kind == "num":
                qs.append(("getNumber %s>>%s" % (">>".join(p), en), "getNumber (%s)" % ex, e[1]))
            elif kind == "str":
                qs.append(("getText %s>>%s" % (">>".join(p), en), "getText (%s)" % ex, e[1]))
            elif kind == "arr":
                qs.append(("getArray %s>>%s" % (">>".join(p), en), "getArray (%s)" % ex, e[1]))
        if not broken:
            qs.append(("inheritsFrom " + ">>".join(p), 'call { private _b = inheritsFrom (%s); if (isNull _b) then {""} else {configName _b} }' % sqf_path(p), node.base.name if node.base else ""))
        real = []
        n2 = node
        while n2 is not None and n2.parent is not None:
            real.insert(0, n2.name)
            n2 = n2.parent
        qs.append(("configHierarchy " + ">>".join(p), "(configHierarchy (%s)) apply {configName _x}" % sqf_path(p), ("tail", real)))
        if not node.has_delete:
            qs.append(("count " + ">>".join(p), "count (%s)" % sqf_path(p), float(len(node.order))))
            for i, nm in enumerate(node.order):
                qs.append(("select %d %s" % (i, ">>".join(p)), "configName ((%s) select %d)" % (sqf_path(p), i), nm))
        else:
            # a `delete` directive is no entry: it is neither counted nor selected. Where a deleted name is defined again
            # its slot is not fixed (first or second declaration) - the enumeration is compared as a set
            qs.append(("count " + ">>".join(p), "count (%s)" % sqf_path(p), float(len(node.order))))
            qs.append(("enumerated-names " + ">>".join(p),
                       'call { private _r = []; for "_k" from 0 to (count (%s)) - 1 do { _r pushBack (configName ((%s) select _k)) }; _r sort true; _r }' % (sqf_path(p), sqf_path(p)),
                       sorted(node.order)))
    return qs


def acyclic_queries():
    """The base chain of every class ends within a bound: judged for every history, also those whose content is not."""
    qs = []
    for p in PATHS:
        qs.append(("acyclic " + ">>".join(p), "call { private _c = %s; private _n = 0; while {!isNull _c && _n < 40} do { _c = inheritsFrom _c; _n = _n + 1 }; _n < 40 }" % sqf_path(p), True))
    return qs


def termination_queries():
    qs = []
    for p in PATHS:
        for en in ENTRIES:
            qs.append(("terminates %s>>%s" % (">>".join(p), en), "isNull (%s >> \"%s\")" % (sqf_path(p), en), None))
            qs.append(("terminates-get %s>>%s" % (">>".join(p), en), "[getNumber (%s >> \"%s\"), getArray (%s >> \"%s\")]" % (sqf_path(p), en, sqf_path(p), en), None))
    return qs


def consistency_queries():
    """Model-free: what `P >> name` finds is what walking the base chain reported by inheritsFrom finds (own entry first).
    Holds whatever a re-opening with another base is taken to mean; only judged for histories without `delete`."""
    qs = []
    for p in PATHS:
        for en in ("x", "y", "arr"):
            P = sqf_path(p)
            qs.append(("chain-lookup %s>>%s" % (">>".join(p), en),
                       'call { private _c = %s; private _own = configNull; private _n = 0; '
                       'while {!isNull _c && {isNull _own} && {_n < 40}} do { private _e = _c >> "%s"; private _h = if (isNull _e) then {[]} else {configHierarchy _e}; '
                       'if (count _h >= 2 && {(_h select ((count _h) - 2)) isEqualTo _c}) then { _own = _e } else { _c = inheritsFrom _c }; _n = _n + 1 }; '
                       'private _d = %s >> "%s"; [isNull _own, getNumber _own, getArray _own] isEqualTo [isNull _d, getNumber _d, getArray _d] }' % (P, en, P, en), True))
    return qs


WARMUP = ";\n".join('isNull (%s >> "%s")' % (sqf_path(p), en) for p in PATHS for en in ("x", "y", "arr", "missing"))


def check(ws, files, variant="asan", warm=False):
    texts = [" ".join(render_item(tuple(i)) for i in f) for f in files]
    has_delete = any(it[0] == "class" and it[3] == "delx" for f in files for it in f)
    try:
        root = build_ref(files)
        qs = queries(root) + acyclic_queries()
    except Excluded:
        # content is outside what the statement fixes (eg. a class re-opened with a different base): every lookup still has
        # to terminate and the base relation has to stay acyclic
        root = Node("", None)
        qs = termination_queries() + acyclic_queries()
    if warm and not has_delete:
        qs = qs + consistency_queries()
    # fast path: all queries in one script (one diag_log per query, tagged with its index); if it does not produce every
    # answer (a query raised an error and ended the script, crashed or hung) the queries are run one by one below
    head = [{"op": "vm", "id": 0, "template": True}]
    for k, t in enumerate(texts):
        head.append({"op": "config", "id": 0, "text": t, "preprocess": False})
        if warm and k + 1 < len(texts):
            # lookups BETWEEN two loads: whatever they leave behind must not change what is found after the next load
            head += [{"op": "sqf", "id": 0, "text": WARMUP}, {"op": "exec", "id": 0, "action": "start"}, {"op": "exec", "id": 0, "action": "abort"}]
    one = ";\n".join("diag_log str [%d, %s]" % (k, ex) for k, (lab, ex, want) in enumerate(qs))
    r = ws.call({"mode": "steps", "fork": True, "timeout_ms": 15000, "steps": head + [{"op": "sqf", "id": 0, "text": one}, {"op": "exec", "id": 0, "action": "start"}]}, variant=variant, prepare=PREP)
    fast = None
    if r["outcome"] == "ok":
        outs = {}
        for m in r["result"]["log"]:
            if m["code"] == 60019:
                try:
                    v = I.parse_value(m["msg"].split("[DIAG_LOG] ", 1)[1])
                    outs[int(v[0])] = v[1:]
                except Exception:
                    pass
        if len(outs) == len(qs):
            fast = outs
    steps = list(head)
    if fast is None:
        for lab, ex, want in qs:
            steps.append({"op": "sqf", "id": 0, "text": "diag_log str [%s]" % ex})
            steps.append({"op": "exec", "id": 0, "action": "start"})
            steps.append({"op": "exec", "id": 0, "action": "abort"})
        r = ws.call({"mode": "steps", "fork": True, "timeout_ms": 15000, "steps": steps}, variant=variant, prepare=PREP)
    nontrivial = 1 if any(n.base or getattr(n, "reopened", False) for n in all_nodes(root)) or not root.entries else 0
    info = {"n": 1, "nontrivial": nontrivial, "states": 1, "transitions": len(files), "executions": 1, "queries": len(qs)}
    feat = features(files)
    if r["outcome"] != "ok":
        # find the query that kills it
        culprit = "load"
        for k, (lab, ex, want) in enumerate(qs):
            st = steps[:len(head)] + [{"op": "sqf", "id": 0, "text": "diag_log str [%s]" % ex}, {"op": "exec", "id": 0, "action": "start"}]
            r1 = ws.call({"mode": "steps", "fork": True, "timeout_ms": 5000, "steps": st}, variant=variant, prepare=PREP)
            if r1["outcome"] != "ok":
                culprit = lab.split(" ")[0]
                r = r1
                break
        from .c09 import kind_class
        kind = r.get("kind", r["outcome"]) if r["outcome"] == "crash" else r["outcome"]
        return [("C15|%s|%s|%s" % (culprit, kind_class(kind), feat), "config %r: %s during %s (%s)" % (texts, kind, culprit, r.get("frame", "")[:100]), None, files)], info
    res = r["result"]
    base = len(head)
    for k, (lab, ex, want) in enumerate(qs):
        if want is None:
            continue
        if fast is not None:
            got = fast[k][0] if fast[k] else None
        else:
            logs = [m for m in res["log"] if m["step"] in (base + 3 * k, base + 3 * k + 1)]
            out = [m["msg"].split("[DIAG_LOG] ", 1)[1] for m in logs if m["code"] == 60019]
            if not out:
                return [("C15|%s|no-result|%s" % (lab.split(" ")[0], feat), "config %r: query %s gave no result (%s)" % (texts, ex, [m["msg"][:80] for m in logs if m["lvl"] <= 1][:1]), None, files)], info
            got = I.parse_value(out[0])[0] if out[0] != "[]" else None
        if isinstance(want, tuple) and want[0] == "tail":
            names = [g for g in (got or [])]
            ok = names[-len(want[1]):] == want[1] and len(names) == len(want[1]) + 1
        else:
            ok = I.norm(got) == I.norm(want)
        if not ok:
            return [("C15|%s|%s" % (lab.split(" ")[0], feat), "config %r: %s = %r, reference %r" % (texts, ex, got, want), None, files)], info
    return [], info


def between_items():
    return [("class", "B", None, "x1"), ("class", "B", None, "x2y"), ("class", "C", None, "x1"), ("class", "C", None, "x2y"), ("class", "C", None, "arr"),
            ("class", "A", "B", "empty"), ("class", "A", "C", "empty"), ("class", "A", "B", "x1"), ("class", "A", None, "empty"), ("class", "B", "C", "empty"),
            ("class", "C", "B", "empty"), ("class", "A", "B", "arr+"), ("class", "A", "C", "arr+"), ("fwd", "A")]


def gen_between():
    """Two loads with lookups in between: 3 items, all lookups, 1 item (incl. re-opening a class with another base), all queries."""
    al = between_items()
    for f1 in itertools.product(al, repeat=3):
        for f2 in al:
            yield [[list(i) for i in f1], [list(f2)]]


def check_between(ws, files):
    return check(ws, files, "fast", warm=True)


def check_fast(ws, files):
    """Same oracle on the -O2 build without sanitizers (5x the throughput): used for the large thorough spaces."""
    return check(ws, files, "fast")


def all_nodes(n):
    yield n
    for k, v in n.entries.items():
        if v[0] == "class":
            yield from all_nodes(v[1])


def features(files):
    f = set()
    for fl in files:
        for it in fl:
            if it[0] == "class":
                if it[2] == it[1]:
                    f.add("self-base")
                elif it[2] == "Missing":
                    f.add("missing-base")
                elif it[2]:
                    f.add("base")
                if it[3] in ("delx",):
                    f.add("delete")
                if it[3] == "arr+":
                    f.add("append")
                if it[3].startswith("in"):
                    f.add("nested")
    names = [it[1] for fl in files for it in fl]
    if len(names) != len(set(names)):
        f.add("reopen")
    if len(files) > 1:
        f.add("2files")
    return "+".join(sorted(f)) or "flat"


def spaces(tier):
    if tier == "quick":
        return [Space("one-file", gen(2, 1), check, variant="asan", describe="one file with <=2 top-level items"),
                Space("lookups-between-loads", gen_between, check_between, variant="fast",
                      describe="two loads (3 items, then 1 item over a 14-item alphabet incl. re-opening with another base) with every lookup executed in between; model oracle where it applies, else `P >> n` = walk along inheritsFrom"),
                Space("one-file-3-items-delete", gen_three_delete, check_fast, variant="fast",
                      describe="one file with 3 top-level items (names A, B; reduced alphabet) of which at least one holds `delete x;`: all read orders of delete / definition / base link"),
                ]
    return [Space("one-file", gen(2, 1), check, variant="asan", describe="one file with <=2 top-level items over the full item alphabet"),
            Space("one-file-3-items", gen_three, check_fast, variant="fast", describe="one file with 3 top-level items over the reduced alphabet (bodies: value, array, append, delete, nested classes inheriting; all base kinds)"),
            Space("lookups-between-loads", gen_between, check_between, variant="fast",
                  describe="two loads (3 items, then 1 item over a 14-item alphabet incl. re-opening with another base) with every lookup executed in between; model oracle where it applies, else `P >> n` = walk along inheritsFrom"),
            Space("two-files", gen_two_files, check_fast, variant="fast", describe="two files: one item each over the full alphabet; two items then one item over the reduced alphabet for names A, B")]
