"""C07 - equality is an equivalence consistent with hashing; HashMap is a finite map.

(a) relations: all pairs / triples over a pool of values chosen one per shortcut in the comparison code:
isEqualTo symmetric, reflexive, transitive; == agrees modulo string case; `in` / `find` agree; equal values hash
equally (value::hash() read in the driver).
(b) HashMap histories: every sequence of operations up to a depth from two initial maps, on the real VM,
observed after every operation (count, in / get for every key, keys) against a reference dictionary keyed by
isEqualTo-class with keys captured by value; copies are independent.
"""
import itertools, json, re
from ..engine import Space
from ..ref import sqf_interp as I

PROPERTY = "C07"
LEVEL = "model_checking"
VARIANTS = ["fast"]
RULE = ("relations: all ordered pairs and all triples over the value pool (one representative per comparison shortcut); histories: all "
        "operation sequences of depth <=3 (quick) / <=4 (thorough) over 22 operations from 2 initial maps, stateless (bucket layout after "
        "key mutation is hidden state), states = distinct reference contents reached, transitions = operations executed and compared")
ASSUMPTIONS = [
    "values containing nil or NaN are outside the pool (the statement excludes them)",
    "which of two equal keys (0 / -0) `keys` reports is not judged: keys are compared by equality class",
]
DEADLINE_S = {"quick": 420, "thorough": 1500}

POOL = ["0", "-0", "1", "-1", "1.5", "1e10", "true", "false", '""', '"a"', '"A"', '"ab"', '"AB"', "[]", "[0]", "[-0]", "[1,2]", "[[1]]",
        '["a"]', '["A"]', "GA", "GB", "{}", "{0}", "{-0}", "{1+1}", "{1 + 1}", '{"a"}', "{'a'}", "createHashMap",
        "(createHashMapFromArray [[1,2],[3,4]])", "(createHashMapFromArray [[3,4],[1,2]])", "(createHashMapFromArray [[1,[2]]])", "HM1",
        "configFile", "configNull", "objNull", "grpNull", "GRP", "west", "east", "sideUnknown", "scriptNull",
        "missionNamespace", "uiNamespace", "(text \"a\")", "[true]", "[[], []]", "[{0}]", "[{-0}]",
        # code that differs only in the letter case of a variable / operator name
        "{_a}", "{_A}", "{x = 1}", "{X = 1}", "{private _v = 2}", "{private _V = 2}", "{count [1]}", "{COUNT [1]}", "{[_a]}", "{[_A]}"]
PRELUDE = 'GA = [1,2]; GB = GA; HM1 = createHashMapFromArray [[1,2],[3,4]]; GRP = createGroup west;'
CONFIG = "class CfgA { a = 1; };"


def gen_rel():
    yield ["matrix"]
    n = len(POOL)
    for i in range(n):
        yield ["row", i]


_cache = {}


def pool_info(ws):
    if "v" not in _cache:
        r = ws.call({"mode": "values", "conf": {"ops": "full"}, "prelude": PRELUDE, "texts": POOL}, variant="fast")
        if r["outcome"] != "ok":
            raise RuntimeError("values mode failed: %r" % r)
        _cache["v"] = r["result"]
    return _cache["v"]


def check_rel(ws, case):
    info = pool_info(ws)
    n = len(POOL)
    viols = []
    if case[0] == "matrix":
        # one script computes the whole isEqualTo matrix with the real operator
        text = PRELUDE + " VALS = [" + ",".join(POOL) + "]; { private _a = _x; diag_log str (VALS apply { _a isEqualTo _x }) } forEach VALS;"
        r = ws.call({"mode": "eval", "conf": {"ops": "full"}, "texts": [text]}, variant="fast")
        rows = [I.parse_value(m["msg"].split("[DIAG_LOG] ", 1)[1]) for m in r["result"]["items"][0]["log"] if m["code"] == 60019]
        if len(rows) != n:
            return [("C07|relations|matrix-script-failed", "could not compute the isEqualTo matrix: %r" % [m["msg"][:100] for m in r["result"]["items"][0]["log"] if m["lvl"] <= 1][:2], None, case)], {"n": 1}
        eq = rows
        for i in range(n):
            if not eq[i][i]:
                viols.append(("C07|reflexive|%s" % info["items"][i]["type"], "%s isEqualTo itself is false" % POOL[i], None, case))
            for j in range(n):
                if eq[i][j] != eq[j][i]:
                    viols.append(("C07|symmetric|%s,%s" % (info["items"][i]["type"], info["items"][j]["type"]), "%s isEqualTo %s = %s but reversed = %s" % (POOL[i], POOL[j], eq[i][j], eq[j][i]), None, case))
                if eq[i][j] and info["items"][i]["hash"] != info["items"][j]["hash"]:
                    si, sj = info["items"][i]["str"], info["items"][j]["str"]
                    tag = "code-differing-only-in-signed-zero" if ("{" in si and "{" in sj and si.replace("-0", "0") == sj.replace("-0", "0")) else info["items"][i]["type"]
                    viols.append(("C07|equal-values-hash-differently|%s" % tag, "%s isEqualTo %s but their hashes differ (%s / %s)" % (
                        POOL[i], POOL[j], info["items"][i]["hash"], info["items"][j]["hash"]), None, case))
                if eq[i][j] != (info["eq"][i][j] == "1"):
                    viols.append(("C07|operator-vs-value-equality|%s" % info["items"][i]["type"], "isEqualTo(%s,%s)=%s but value::operator== says %s" % (POOL[i], POOL[j], eq[i][j], info["eq"][i][j]), None, case))
        triples = 0
        for i in range(n):
            for j in range(n):
                if not eq[i][j]:
                    continue
                for k in range(n):
                    triples += 1
                    if eq[j][k] and not eq[i][k]:
                        viols.append(("C07|transitive|%s" % info["items"][i]["type"], "%s = %s = %s but first and last differ" % (POOL[i], POOL[j], POOL[k]), None, case))
        _cache["eq"] = eq
        return viols[:20], {"n": n * n, "nontrivial": n * n, "states": n * n, "transitions": n * n + triples, "executions": 1}
    # per-row: == agreement, in / find agreement (one script per pair keeps errors of undefined == local)
    i = case[1]
    texts = []
    for j in range(n):
        a, b = POOL[i], POOL[j]
        texts.append(PRELUDE + " diag_log str [(%s) isEqualTo (%s), (%s) in [%s], [%s] find (%s), [[%s]] find [%s], (%s) isEqualTo +(%s)]" % (a, b, a, b, b, a, b, a, a, b)
                     if info["items"][j]["type"] == "ARRAY" else
                     PRELUDE + " diag_log str [(%s) isEqualTo (%s), (%s) in [%s], [%s] find (%s), [[%s]] find [%s]]" % (a, b, a, b, b, a, b, a))
        texts.append(PRELUDE + " diag_log str [(%s) == (%s)]" % (a, b))
    r = ws.call({"mode": "eval", "conf": {"ops": "full"}, "config": CONFIG, "texts": texts}, variant="fast")
    items = r["result"]["items"]
    ti, tinfo = info["items"][i]["type"], info["items"]
    for j in range(n):
        a, b = POOL[i], POOL[j]
        d = [m["msg"].split("[DIAG_LOG] ", 1)[1] for m in items[2 * j]["log"] if m["code"] == 60019]
        if not d:
            viols.append(("C07|in-find|script-error|%s" % ti, "in/find script failed for %s, %s" % (a, b), None, case))
            continue
        v = I.parse_value(d[0])
        e = v[0]
        if v[1] != e or (v[2] >= 0) != e or (v[3] >= 0) != e:
            viols.append(("C07|in-find-disagree|%s,%s" % (ti, tinfo[j]["type"]), "%s vs %s: isEqualTo=%s in=%s find=%s nested find=%s" % (a, b, e, v[1], v[2], v[3]), None, case))
        if len(v) > 4 and v[4] != e:
            viols.append(("C07|copy-not-equal|ARRAY", "%s isEqualTo +(%s) = %s but isEqualTo = %s" % (a, b, v[4], e), None, case))
        d2 = [m["msg"].split("[DIAG_LOG] ", 1)[1] for m in items[2 * j + 1]["log"] if m["code"] == 60019]
        if d2:   # == is defined for this type pair
            ee = I.parse_value(d2[0])[0]
            if tinfo[i]["type"] == "STRING" and tinfo[j]["type"] == "STRING":
                want = tinfo[i]["str"].lower() == tinfo[j]["str"].lower()
            else:
                want = e
            if isinstance(ee, bool) and ee != want:
                viols.append(("C07|==-disagrees-with-isEqualTo|%s" % ti, "(%s) == (%s) is %s, isEqualTo says %s" % (a, b, ee, e), None, case))
    return viols, {"n": n, "nontrivial": n, "states": n, "transitions": 2 * n, "executions": 2 * n}


# ------------------------------------------------------------------ hashmap histories
KEYS = ["0", "-0", "1", '"a"', '"A"', "true", "KA", "[1]", "[1,2]", "{0}", "{-0}", "KN", "[[1]]", "[[1,2]]"]
# KN = [KI] is an array key whose ELEMENT is shared with the script: capture by value has to be deep
OPS = (
    [("set", k) for k in ["0", "-0", '"a"', '"A"', "KA", "[1,2]", "{0}", "{-0}"]] +
    [("del", k) for k in ["0", '"a"', "KA", "[1]", "{0}"]] +
    [("mut", "push"), ("mut", "pop"), ("copy",), ("cset", '"a"'), ("cdel", "0")] +
    [("set", "KN"), ("del", "[[1]]"), ("mut", "inner-push"), ("mut", "inner-pop")] +
    # what `keys` hands out are copies too: changing them (or their elements) changes nothing in the map
    [("mut", "keys-push"), ("mut", "keys-inner-push")]
)
INITS = ["empty", "from-array"]


def key_class(rep, kak):
    """Equality class of a key given by source text; kak = current contents of the shared arrays (KA, KI)."""
    ka, ki = kak
    if rep in ("0", "-0"):
        return "n0"
    if rep == "KA":
        return "arr:" + json.dumps(ka)
    if rep == "KN":
        return "arr:" + json.dumps([ki])
    if rep.startswith("["):
        return "arr:" + json.dumps(json.loads(rep))
    if rep in ("{0}", "{-0}"):
        return "code0"
    return rep


def printed_class(v):
    """Equality class of a key as printed by `keys`."""
    if isinstance(v, (int, float)) and not isinstance(v, bool):
        return "n0" if v == 0 else ("1" if v == 1 else repr(v))
    if isinstance(v, bool):
        return "true" if v else "false"
    if isinstance(v, str):
        return '"%s"' % v
    if isinstance(v, list):
        return "arr:" + json.dumps(_ints(v))
    if isinstance(v, tuple) and v[0] == "raw":
        return "code0" if v[1].replace(" ", "") in ("{0}", "{-0}") else v[1]
    return repr(v)


def _ints(v):
    if isinstance(v, list):
        return [_ints(x) for x in v]
    return int(v) if isinstance(v, float) and v == int(v) else v


def gen_hist(depth):
    def g():
        for init in INITS:
            for d in range(1, depth + 1):
                for seq in itertools.product(range(len(OPS)), repeat=d):
                    yield [init, list(seq)]
    return g


OBS = 'diag_log str [count M, K apply {_x in M}, K apply {M get _x}, keys M]; if (!isNil "C") then { diag_log str [count C, K apply {_x in C}, K apply {C get _x}, keys C] } else { diag_log str [] };'


def check_hist(ws, case):
    init, seq = case
    ka = ([1], [1])
    ref = {}
    refc = None
    lines = ["KA = [1]; KI = [1]; KN = [KI]; K = [%s];" % ",".join(KEYS)]
    if init == "empty":
        lines.append("M = createHashMap;")
    else:
        lines.append('M = createHashMapFromArray [[0, 100], ["a", 101], [KA, 102], [0, 103], [KN, 104]];')
        ref[key_class("0", ka)] = 103
        ref[key_class('"a"', ka)] = 101
        ref[key_class("KA", ka)] = 102
        ref[key_class("KN", ka)] = 104
    exp = []
    states = set()
    for n, oi in enumerate(seq):
        op = OPS[oi]
        val = 10 + n
        if op[0] == "set":
            lines.append("M set [%s, %d];" % (op[1], val))
            ref[key_class(op[1], ka)] = val
        elif op[0] == "del":
            lines.append("M deleteAt %s;" % op[1])
            ref.pop(key_class(op[1], ka), None)
        elif op[0] == "mut":
            if op[1] == "push":
                lines.append("KA pushBack 2;")
                ka = (ka[0] + [2], ka[1])
            elif op[1] == "pop":
                lines.append("if (count KA > 1) then { KA deleteAt 1 };")
                ka = (ka[0][:1] + ka[0][2:], ka[1])
            elif op[1] == "keys-push":
                lines.append("{ if (_x isEqualType []) then { _x pushBack 7 } } forEach (keys M);")
            elif op[1] == "keys-inner-push":
                lines.append("{ if (_x isEqualType [] && {count _x > 0} && {(_x select 0) isEqualType []}) then { (_x select 0) pushBack 7 } } forEach (keys M);")
            elif op[1] == "inner-push":
                lines.append("KI pushBack 2;")
                ka = (ka[0], ka[1] + [2])
            else:
                lines.append("if (count KI > 1) then { KI deleteAt 1 };")
                ka = (ka[0], ka[1][:1] + ka[1][2:])
        elif op[0] == "copy":
            lines.append("C = +M;")
            refc = dict(ref)
        elif op[0] == "cset":
            lines.append("if (!isNil \"C\") then { C set [%s, %d] };" % (op[1], val))
            if refc is not None:
                refc[key_class(op[1], ka)] = val
        elif op[0] == "cdel":
            lines.append("if (!isNil \"C\") then { C deleteAt %s };" % op[1])
            if refc is not None:
                refc.pop(key_class(op[1], ka), None)
        lines.append(OBS)
        exp.append((dict(ref), None if refc is None else dict(refc), ka))
        states.add(json.dumps([sorted(ref.items()), sorted(refc.items()) if refc is not None else None, ka]))
    text = "\n".join(lines)
    r = ws.call({"mode": "eval", "conf": {"ops": "full"}, "texts": [text]}, variant="fast")
    info = {"n": 1, "nontrivial": 1, "states": len(states), "transitions": len(seq), "executions": 1}
    if r["outcome"] != "ok":
        r = ws.call({"mode": "eval", "fork": True, "timeout_ms": 10000, "conf": {"ops": "full"}, "texts": [text]}, variant="fast")
        if r["outcome"] != "ok":
            return [("C07|history|%s" % r.get("kind", r["outcome"]), "history %s crashed: %s" % (describe(case), r.get("kind")), None, case)], info
    it = r["result"]["items"][0]
    obs = [I.parse_value(m["msg"].split("[DIAG_LOG] ", 1)[1]) for m in it["log"] if m["code"] == 60019]
    errs = [m["msg"] for m in it["log"] if m["lvl"] <= 1]
    if len(obs) != 2 * len(seq):
        return [("C07|history|script-error|" + opsig(case), "history %s: script did not complete: %s" % (describe(case), errs[:1]), None, case)], info
    for n in range(len(seq)):
        rm, rc, ka_n = exp[n]
        for which, o, refmap in (("map", obs[2 * n], rm), ("copy", obs[2 * n + 1], rc)):
            if refmap is None:
                continue
            if not o:
                return [("C07|history|copy-missing", "history %s: copy not observable" % describe(case), None, case)], info
            cnt, ins, gets, keys = o
            want_in = [key_class(k, ka_n) in refmap for k in KEYS]
            want_get = [refmap.get(key_class(k, ka_n)) for k in KEYS]
            got_keys = sorted(printed_class(k) for k in keys)
            want_keys = sorted(refmap.keys())
            kind = None
            if cnt != len(refmap):
                kind = "count"
            elif ins != want_in:
                kind = "in"
            elif I.norm(gets) != I.norm(want_get):
                kind = "get"
            elif got_keys != want_keys:
                kind = "keys"
            if kind:
                return [("C07|history|%s|%s|%s" % (which, kind, opsig(case, n)),
                         "history %s, after operation %d: %s %s = %r, reference %r" % (
                             describe(case), n + 1, which, kind,
                             {"count": cnt, "in": ins, "get": gets, "keys": got_keys}[kind],
                             {"count": len(refmap), "in": want_in, "get": want_get, "keys": want_keys}[kind]), None, case)], info
    return [], info


def describe(case):
    return "%s: %s" % (case[0], "; ".join(" ".join(OPS[i]) for i in case[1]))


def opsig(case, upto=None):
    ops = [OPS[i] for i in case[1]][: (upto + 1 if upto is not None else None)]
    kinds = sorted(set((o[0] + ":" + ("KA" if len(o) > 1 and o[1] == "KA" else ("code" if len(o) > 1 and o[1].startswith("{") else ("zero" if len(o) > 1 and o[1] in ("0", "-0") else "other")))) if o[0] in ("set", "del") else o[0] for o in ops))
    mutated = any(o[0] == "mut" for o in ops)
    ka_key = any(len(o) > 1 and o[1] in ("KA", "KN") and o[0] == "set" for o in ops) or case[0] == "from-array"
    if mutated and ka_key:
        return "array-key-mutated-after-insertion"
    if any(k.endswith(":code") for k in kinds):
        return "code-key-0-vs--0"
    return "+".join(kinds)


def spaces(tier):
    return [Space("relations", gen_rel, check_rel, variant="fast", describe="isEqualTo / == / in / find / hash over all pairs and triples of %d values" % len(POOL)),
            Space("hashmap-histories", gen_hist(3 if tier == "quick" else 4), check_hist, variant="fast",
                  describe="all operation sequences over 22 operations x 2 initial maps, observed after every operation")]
