"""C01 - expressions group by precedence, left-assoc, unary tightest, operands in order.

Bounded-exhaustive enumeration of expression trees over synthetic operators of every token class and
precedence level (registered by the driver) and over every stock operator name; each tree is printed with
minimal, full and redundant parentheses / whitespace / letter case, compiled by the real parser, and the
emitted instruction list must equal the post-order of the tree. A value-level pass evaluates the
minimal and the fully parenthesised spelling in the VM and compares the results.
"""
import itertools, json
from ..engine import Space
from ..ref import expr as E

PROPERTY = "C01"
LEVEL = "exploration"
VARIANTS = ["fast"]
RULE = ("every expression tree up to the stated number of binary/unary nodes over the stated operator classes and "
        "operand kinds, printed in 3 parenthesisation styles x whitespace/case variants; a case is one tree; "
        "non-trivial = tree contains at least one operator application; distinct by tree structure")
ASSUMPTIONS = [
    "registered precedence (registry dump of the built tree) is the source of truth for stock operators",
    "BN/BUN token classes (no stock member, grammar ambiguous by construction) are not part of the alphabet",
    "a sign applied directly to a number literal is part of the literal (PUSH -n), as the statement says",
]
DEADLINE_S = {"quick": 420, "thorough": 1500}

LEVELS = list(range(1, 11))
BATCH = 150


def binops(classes=("B", "BU")):
    r = []
    for p in LEVELS:
        if "B" in classes:
            r.append(("vb%d" % p, p))
        if "BU" in classes:
            r.append(("vbu%d" % p, p))
    return r


UNARIES = ["vu", "vbu3", "vbu9", "vun"]
OPERANDS = [["num", "7"], ["neg", "7"], ["num", "0.5"], ["var", "_v"], ["var", "gv"], ["str", '"s"'], ["str", "'q'"],
            ["bool", "true"], ["bool", "false"], ["nul", "vn"],
            ["var", "t"], ["var", "tr"], ["var", "f"], ["var", "fals"], ["var", "p"], ["var", "privat"],
            ["var", "truex"], ["var", "true_"], ["var", "false1"],
            ["arr", []], ["arr", [["num", "8"], ["num", "9"]]], ["code", []], ["code", [["num", "8"]]],
            ["arr", [["bin", "vb2", 2, ["num", "8"], ["num", "9"]], ["un", "vu", ["num", "6"]]]],
            ["code", [["bin", "vb2", 2, ["num", "8"], ["bin", "vb1", 1, ["num", "9"], ["num", "6"]]], ["num", "5"]]]]

STYLES = [("min", " ", None), ("full", " ", None), ("red", " ", None),
          ("min", "\n\t ", "upper"), ("min", "\r\n  ", "mixed"), ("full", "", None)]


def mixed(s):
    return "".join(c.upper() if i % 2 else c.lower() for i, c in enumerate(s))


def opcase(kind):
    return {None: None, "upper": str.upper, "mixed": mixed}[kind]


def leaves(n):
    return [["num", str(i + 1)] for i in range(n)]


def replace_leaf(tree, idx, new):
    cnt = [0]

    def go(t):
        if t[0] == "bin":
            return ["bin", t[1], t[2], go(t[3]), go(t[4])]
        if t[0] == "un":
            return ["un", t[1], go(t[2])]
        i = cnt[0]
        cnt[0] += 1
        return new(t) if i == idx else t
    return go(tree)


def count_leaves(t):
    if t[0] == "bin":
        return count_leaves(t[3]) + count_leaves(t[4])
    if t[0] == "un":
        return count_leaves(t[2])
    return 1


def batched(it, n=BATCH):
    buf = []
    for x in it:
        buf.append(x)
        if len(buf) >= n:
            yield buf
            buf = []
    if buf:
        yield buf


# ------------------------------------------------------------------ generators
def gen_k2_classes():
    """k<=2 binary nodes over all 20 binary classes, every operand kind / unary decoration at every position."""
    ops = binops()
    def trees():
        for k in (1, 2):
            for shape in E.shapes(k):
                for combo in itertools.product(ops, repeat=k):
                    base = E.build(shape, combo, leaves(k + 1))
                    yield base
                    same_level = len(set(p for _, p in combo))
                    # decorate only a reduced set of operator combinations with all operands (keeps the space
                    # at ~10^5 while every class pair is still visited undecorated)
                    if k == 2 and not (abs(combo[0][1] - combo[1][1]) <= 1 and combo[0][0][:3] != combo[1][0][:3] or combo[0] == combo[1]):
                        continue
                    for i in range(k + 1):
                        for o in OPERANDS:
                            yield replace_leaf(base, i, lambda t, o=o: o)
                        for u in UNARIES:
                            yield replace_leaf(base, i, lambda t, u=u: ["un", u, t])
                        yield replace_leaf(base, i, lambda t: ["un", "vu", ["un", "vbu5", t]])
                    for u in UNARIES:
                        yield ["un", u, base]
    return batched(trees())


def gen_k3_levels(classes=("B",), k=3):
    ops = binops(classes)
    def trees():
        for shape in E.shapes(k):
            for combo in itertools.product(ops, repeat=k):
                yield E.build(shape, combo, leaves(k + 1))
    return batched(trees())


def gen_operands_alone():
    def trees():
        for o in OPERANDS:
            yield o
            for u in UNARIES + ["-", "+", "!"]:
                yield ["un", u, o]
                yield ["un", u, ["un", "vu", o]]
        # a name that is both unary and nular, used as nular where no unary reading exists
        vun = ["nul", "vun"]
        for t in (vun, ["arr", [vun, vun]], ["bin", "vb5", 5, ["num", "1"], vun], ["bin", "vb5", 5, vun, ["num", "1"]],
                  ["un", "vu", vun], ["bin", "vb5", 5, vun, vun], ["code", [vun]]):
            yield t
        for n in ("1", "0", "0.25", "1e3", "12345"):
            yield ["neg", n]
            yield ["un", "-", ["neg", n]]
            yield ["bin", "-", 6, ["num", "3"], ["neg", n]]
            yield ["bin", "-", 6, ["neg", n], ["num", "3"]]
            yield ["bin", "+", 6, ["un", "-", ["var", "_v"]], ["neg", n]]
            yield ["un", "vu", ["neg", n]]
    return batched(trees())


_REG = {}


def registry(ws):
    if "r" not in _REG:
        r = ws.call({"mode": "registry", "conf": {"synth": False}}, variant="fast")
        if r["outcome"] != "ok":
            raise RuntimeError("registry dump failed: %r" % r)
        _REG["r"] = r["result"]
    return _REG["r"]


def gen_registry():
    """One case per stock operator name; contexts are built in check (needs the registry)."""
    from ..engine import W
    ws = W()
    reg = registry(ws)
    ws.close()
    names = set()
    for b in reg["binary"]:
        names.add(b[0])
    for u in reg["unary"]:
        names.add(u[0])
    for n in reg["nular"]:
        names.add(n)
    names -= {"true", "false"}  # literals (keywords), not registry lookups
    return batched(sorted(names), 40)


NUMOP_NAMES = ["+", "-", "*", "/", "%", "mod", "^", "min", "max", "atan2", "==", "<", ">=", "&&", "||", "select", "#",
               "isEqualTo", "pushBack", "else", ">>"]


def numops():
    from ..engine import W
    ws = W()
    reg = registry(ws)
    ws.close()
    prec = {}
    for b in reg["binary"]:
        prec[b[0]] = b[1]
    return [(n, prec[n.lower()]) for n in NUMOP_NAMES if n.lower() in prec]


def gen_values(k=2):
    def trees():
        ops = numops()
        nums = [["num", "7"], ["num", "2"], ["num", "3"], ["num", "0.5"]]
        for kk in range(1, k + 1):
            for shape in E.shapes(kk):
                for combo in itertools.product(ops, repeat=kk):
                    t = E.build(shape, combo, nums[:kk + 1])
                    yield t
                    yield replace_leaf(t, 0, lambda x: ["un", "-", ["var", "gv"]])
                    yield replace_leaf(t, kk, lambda x: ["neg", "2"])
                    yield replace_leaf(t, kk, lambda x: ["un", "abs", x])
                    yield replace_leaf(t, 0, lambda x: ["arr", [["num", "4"], ["num", "5"], ["num", "6"]]])
    return batched(trees())


# ------------------------------------------------------------------ checking
def features(t, acc=None):
    acc = acc if acc is not None else set()
    k = t[0]
    if k == "bin":
        acc.add("bin:" + ("".join(c for c in t[1] if not c.isdigit()) if t[1].startswith("vb") else "stock") + ":p%d" % t[2])
        features(t[3], acc); features(t[4], acc)
    elif k == "un":
        acc.add("un:" + (t[1] if t[1] in ("vu", "vun", "-", "+") else "".join(c for c in t[1] if not c.isdigit())))
        features(t[2], acc)
    elif k == "nul":
        acc.add("nul:" + t[1])
    elif k == "var" and t[1].lower() in ("t", "tr", "f", "fals", "p", "privat", "truex", "true_", "false1"):
        acc.add("ident:keywordlike")
    elif k in ("arr", "code"):
        for e in t[1]:
            features(e, acc)
    return acc


def signature(kind, t):
    f = features(t)
    if "nul:vun" in f:
        return "C01|%s|operand=nular-use-of-unary+nular-name" % kind
    if "ident:keywordlike" in f:
        return "C01|%s|identifier-resembling-keyword" % kind
    ops = sorted(x for x in f if x.startswith("bin:") or x.startswith("un:"))
    return "C01|%s|%s" % (kind, ",".join(ops)[:120])


def check_trees(ws, batch, conf_synth=True):
    texts = []
    meta = []
    for t in batch:
        exp = E.postorder(t)
        for (style, sep, oc) in STYLES:
            if style == "full" and sep == "" and any(x in json.dumps(t) for x in ('"-"', '"+"', '"neg"')):
                continue
            try:
                txt = E.render(t, style, sep, opcase(oc))
            except Exception:
                raise
            texts.append(txt)
            meta.append((t, exp, style, txt))
    r = ws.call({"mode": "parse", "conf": {"synth": conf_synth}, "texts": texts}, variant="fast")
    if r["outcome"] != "ok":
        # isolate the culprit under fork
        viols = []
        for (t, exp, style, txt) in meta:
            r1 = ws.call({"mode": "parse", "fork": True, "conf": {"synth": conf_synth}, "texts": [txt]}, variant="fast")
            if r1["outcome"] != "ok":
                viols.append((signature("crash", t), "parser crashed on %r: %s" % (txt, r1.get("kind")), None, [t]))
        return viols, {"n": len(batch), "nontrivial": 0}
    viols = []
    items = r["result"]["items"]
    nontrivial = 0
    for t in batch:
        if t[0] in ("bin", "un"):
            nontrivial += 1
    for (t, exp, style, txt), it in zip(meta, items):
        if not it["ok"]:
            viols.append((signature("parse-fail", t), "valid expression rejected: %r (%s)" % (txt, it.get("log", [{}])[0].get("msg", "")), None, [t]))
        elif it["asm"] != exp:
            viols.append((signature("asm", t), "%r compiled to %s, expected post-order %s" % (txt, it["asm"], exp), None, [t]))
    return viols, {"n": len(batch), "nontrivial": nontrivial, "texts": len(texts)}


def check_values(ws, batch):
    """Value of the minimally parenthesised spelling == value of the fully parenthesised one (and, for
    synthetic operators, == the tree itself)."""
    texts = []
    for t in batch:
        texts.append("gv = 4; " + E.render(t, "min", " "))
        texts.append("gv = 4; " + E.render(t, "full", " "))
    r = ws.call({"mode": "eval", "conf": {"synth": True}, "texts": texts}, variant="fast")
    if r["outcome"] != "ok":
        return [("C01|value|driver-crash", "eval batch crashed: %r" % r.get("kind"), None, batch[:1])], {"n": len(batch)}
    items = r["result"]["items"]
    viols = []
    for i, t in enumerate(batch):
        a, b = items[2 * i], items[2 * i + 1]
        oa = [(m["lvl"], m["code"], m["msg"].split("\t", 1)[-1]) for m in a["log"]]
        ob = [(m["lvl"], m["code"], m["msg"].split("\t", 1)[-1]) for m in b["log"]]
        # stack traces quote source text; compare level/code only for those
        oa = [(l, c, m if c != 60001 else "") for l, c, m in oa]
        ob = [(l, c, m if c != 60001 else "") for l, c, m in ob]
        if (a.get("r"), oa) != (b.get("r"), ob):
            viols.append((signature("value", t), "value of %r differs from fully parenthesised %r: %s vs %s" % (
                texts[2 * i], texts[2 * i + 1], oa[-1:], ob[-1:]), None, [t]))
        elif all(x.startswith(("bin:v", "un:v", "nul:v")) for x in features(t) if not x.startswith("ident")) and features(t):
            want = "Context dropped with return value `%s`." % E.value_of(t) if t[0] not in ("var",) else None
    return viols, {"n": len(batch), "nontrivial": len(batch)}


def check_synth_values(ws, batch):
    texts = [E.render(t, "min", " ") for t in batch]
    r = ws.call({"mode": "eval", "conf": {"synth": True}, "texts": texts}, variant="fast")
    if r["outcome"] != "ok":
        return [("C01|value|driver-crash", "eval batch crashed: %r" % r.get("kind"), None, batch[:1])], {"n": len(batch)}
    viols = []
    for t, txt, it in zip(batch, texts, r["result"]["items"]):
        want = "Context dropped with return value `%s`." % E.value_of(t)
        got = [m["msg"] for m in it["log"] if m["code"] == 60095]
        if got != [want]:
            viols.append((signature("value", t), "%r evaluated to %s, expected %s" % (txt, got or it["log"][-1:], want), None, [t]))
    return viols, {"n": len(batch), "nontrivial": len(batch)}


def check_registry(ws, names):
    reg = registry(ws)
    bprec = {}
    for b in reg["binary"]:
        bprec.setdefault(b[0], set()).add(b[1])
    unary = set(u[0] for u in reg["unary"])
    nular = set(reg["nular"])
    viols = []
    trees = []
    owner = []
    for name in names:
        if name in bprec and len(bprec[name]) != 1:
            viols.append(("C01|registry|overloads-differ-in-precedence", "operator %r is registered with precedences %s" % (name, sorted(bprec[name])), None, [name]))
            continue
        is_b, is_u, is_n = name in bprec, name in unary, name in nular
        if is_b and is_n:
            continue  # BN/BUN: outside the alphabet (see ASSUMPTIONS); none in the stock registry
        if is_b:
            p = next(iter(bprec[name]))
            for q in sorted(set([max(1, p - 1), p, min(10, p + 1), 1, 10])):
                nb = "vb%d" % q
                for t in (["bin", name, p, ["bin", nb, q, ["num", "1"], ["num", "2"]], ["num", "3"]],
                          ["bin", name, p, ["num", "1"], ["bin", nb, q, ["num", "2"], ["num", "3"]]],
                          ["bin", nb, q, ["bin", name, p, ["num", "1"], ["num", "2"]], ["num", "3"]],
                          ["bin", nb, q, ["num", "1"], ["bin", name, p, ["num", "2"], ["num", "3"]]]):
                    trees.append(t); owner.append(name)
            t = ["bin", name, p, ["bin", name, p, ["num", "1"], ["num", "2"]], ["num", "3"]]
            trees.append(t); owner.append(name)
            t = ["bin", name, p, ["num", "1"], ["bin", name, p, ["num", "2"], ["num", "3"]]]
            trees.append(t); owner.append(name)
        if is_u and name not in ("private",):
            for t in (["un", name, ["var", "_v"]],
                      ["bin", "vb10", 10, ["un", name, ["var", "_v"]], ["num", "2"]],
                      ["bin", "vb10", 10, ["num", "1"], ["un", name, ["var", "_v"]]],
                      ["bin", "vb1", 1, ["un", name, ["var", "_v"]], ["num", "2"]],
                      ["un", name, ["bin", "vb10", 10, ["var", "_v"], ["num", "2"]]],
                      ["un", name, ["un", "vu", ["var", "_v"]]],
                      ["un", "vu", ["un", name, ["var", "_v"]]]):
                trees.append(t); owner.append(name)
            if is_b:
                p = next(iter(bprec[name]))
                t = ["bin", name, p, ["un", name, ["var", "_v"]], ["un", name, ["num", "3"]]] if name not in ("-", "+") else \
                    ["bin", name, p, ["un", name, ["var", "_v"]], ["un", name, ["var", "_w"]]]
                trees.append(t); owner.append(name)
        if is_n and not is_b:
            for t in (["nul", name],
                      ["bin", "vb5", 5, ["nul", name], ["num", "2"]],
                      ["bin", "vb5", 5, ["num", "1"], ["nul", name]],
                      ["un", "vu", ["nul", name]],
                      ["arr", [["nul", name], ["nul", name]]]):
                if is_u and t[0] != "bin" and False:
                    continue
                trees.append(t); owner.append(name)
    v2, info = check_trees(ws, trees)
    # attribute to names
    out = list(viols)
    for v in v2:
        t = v[3][0]
        nm = None
        for n2 in names:
            if json.dumps(n2) in json.dumps(t):
                nm = n2
        kind = v[0].split("|")[1]
        sig = "C01|registry-%s|name=%s" % (kind, nm)
        if nm is not None and nm in unary and nm in nular and json.dumps(["nul", nm]) in json.dumps(t):
            sig = "C01|%s|operand=nular-use-of-unary+nular-name" % kind
        out.append((sig, v[1], None, [nm] if nm else v[3]))
    return out, {"n": len(names), "nontrivial": len(names), "texts": info.get("texts", 0), "trees": len(trees)}


def spaces(tier):
    sp = [
        Space("operands", gen_operands_alone, check_trees, variant="fast",
              describe="every operand kind alone and under every unary / sign"),
        Space("grammar-k2", gen_k2_classes, check_trees, variant="fast",
              describe="trees with <=2 binary nodes over all 20 synthetic binary classes (B,BU x levels 1..10), "
                       "every operand kind and unary decoration at every leaf; 6 spellings each"),
        Space("levels-k3", lambda: gen_k3_levels(("B",), 3), check_trees, variant="fast",
              describe="all trees with 3 binary nodes over the 10 precedence levels (class B)"),
        Space("registry", gen_registry, check_registry, variant="fast",
              describe="every registered stock name between synthetic neighbours of precedence p-1,p,p+1,1,10; "
                       "as unary before/inside binaries; as nular operand; registry precedence invariant"),
        Space("values-synth", lambda: gen_k3_levels(("B", "BU"), 2), check_synth_values, variant="fast",
              describe="VM value of synthetic-operator trees (value is the call tree) == reference tree"),
        Space("values-stock", lambda: gen_values(2), check_values, variant="fast",
              describe="VM value of minimal spelling == value of fully parenthesised spelling over stock numeric/logic operators"),
    ]
    sp.append(Space("classes-k3", lambda: gen_k3_levels(("B", "BU"), 3), check_trees, variant="fast",
                    describe="all trees with 3 binary nodes over all 20 binary classes"))
    if tier == "thorough":
        sp += [
            Space("levels-k4", lambda: gen_k3_levels(("B",), 4), check_trees, variant="fast",
                  describe="all trees with 4 binary nodes over the 10 precedence levels"),
            Space("levels-k5", lambda: gen_k3_levels(("B",), 5), check_trees, variant="fast",
                  describe="all trees with 5 binary nodes over the 10 precedence levels (42 shapes x 10^5 operator choices)"),
            Space("values-stock-k3", lambda: gen_values(3), check_values, variant="fast",
                  describe="value-level comparison, 3 binary nodes"),
        ]
    return sp
