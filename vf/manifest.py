"""Regenerates MANIFEST.json from the table below (python3 -m vf.manifest)."""
import json, os, subprocess

ROOT = os.path.dirname(os.path.dirname(os.path.abspath(__file__)))

CHECKS = {
    "C01": dict(level="exploration", ref="3/C01",
                text="bounded-exhaustive enumeration of expression trees (all 20 binary token classes x 10 levels, every operand kind, "
                     "unary decoration, 6 spellings each; every stock operator name between synthetic neighbours) compiled by the real "
                     "parser and compared with the reference post-order, plus value-level comparison in the VM",
                note="trusted: registry dump of the built tree as source of precedence, the 60-line reference printer/post-order in vf/ref/expr.py",
                technique="bounded exhaustive enumeration of expression trees against a reference post-order (small-scope model checking of the parser)"),
    "C02": dict(level="exploration", ref="3/C02",
                text="every nesting chain of 52 control-structure templates (each construct in the executed block of each other) to depth 2 "
                     "(quick) / 3 (thorough) executed by the real VM and compared statement-by-statement and value-by-value with a "
                     "reference interpreter; failing chains are reduced to the smallest failing sub-chain for the signature",
                note="trusted: the 300-line reference interpreter vf/ref/sqf_interp.py; documented exclusions listed as assumptions in the evidence",
                technique="bounded exhaustive enumeration of programs (small-scope) with a reference interpreter as oracle"),
    "C05": dict(level="model_checking", ref="3/C05",
                text="instruction-boundary monitor (guarded hook) evaluated in every state of every execution of the C02 program space placed "
                     "inside pending expressions, block-ending variants, loop accumulation ladders and scheduled pairs under slice lengths "
                     "1..7: invariants I1-I3 on frame bases / operands below live frames / residue of removed frames, plus the value of the "
                     "enclosing expression against the reference interpreter",
                note="states = instruction boundaries visited on the real VM (no model gap); trusted: monitor in harness/vm.cpp, reference interpreter",
                technique="explicit exploration of all executions of a bounded program space with an invariant monitor at every instruction boundary"),
    "C04": dict(level="model_checking", ref="3/C04",
                text="fault placement (8 error kinds x 6 handler placements x every template chain: trace, result code, stack-trace line, "
                     "handler-runs-once and continuation compared with the reference) and explicit-state exploration of all run histories "
                     "(8 run kinds, length <=3/4) on one VM where each run is judged independently of what preceded it",
                note="trusted: reference interpreter (except__ is the only runtime-error handler), observable VM state key (error flag, pending "
                     "messages, contexts, state) for the history exploration",
                technique="exhaustive fault-placement enumeration plus explicit-state search over run histories on the real VM"),
    "C03": dict(level="exploration", ref="3/C03",
                text="all sequences of variable operations (assign, private forms, params, reads; plain globals in 3 spellings, get/setVariable, "
                     "allVariables) distributed over all nestings of scope openers (call, if, loops with 2 iterations, with-do, spawn) up to "
                     "the tier's bounds, every read compared with an environment-chain reference model",
                note="trusted: the reference scope model in vf/checks/c03.py; excluded corner listed in assumptions",
                technique="bounded exhaustive enumeration of programs against an environment-chain reference model"),
    "C09": dict(level="exploration", ref="3/C09",
                text="every registered operator signature of the live registry x per-type boundary-value pools (incl. all arrays of length <=2/3 over one "
                     "representative per type) executed through the VM in forked ASan/UBSan children with watchdog, instruction budget and "
                     "allocation limit; any outcome other than value / SQF diagnostic is a violation",
                note="oracle = sanitizers + libstdc++ assertions + process status; pools are finite (values outside them are not covered); "
                     "signature of a finding = (operator signature, value-independent crash class)",
                technique="exhaustive enumeration of operator signatures x finite boundary pools with sanitizers as oracle"),
    "C10": dict(level="fault_enumeration", ref="3/C10",
                text="for each of the six textual front ends: all strings up to length n over the scanners' branch characters, every prefix and "
                     "suffix-truncation and every single-token mutation of a corpus of valid inputs, #define graphs with self/mutual "
                     "recursion, stray directives and nesting ladders, in forked ASan/UBSan children with a watchdog; oracle: terminates, "
                     "result or error diagnostic, no sanitizer report / escaped exception, identical result on a second run",
                note="finite alphabets and corpus; time bound is a generous constant per input size, nesting depth <= 300 (deeper nesting is quadratic, see DESIGN limits)",
                technique="exhaustive enumeration of short inputs, truncation points and single-token faults with sanitizers and a watchdog as oracle"),
    "C06": dict(level="exploration", ref="3/C06",
                text="exhaustive sweeps of strings (15-symbol alphabet, every byte), <=6-digit numbers across the float32 exponent range, nested "
                     "arrays, every C01 k<=2 expression tree as code body (str -> compile -> instruction-for-instruction), literal spellings against "
                     "exact rational nearest-float32, and the formatter on the same bodies",
                note="trusted: exact rational reference for literals, instruction listing of the driver; formatter class exercised directly",
                technique="bounded exhaustive enumeration of values/texts with round-trip and reference-value oracles"),
    "C07": dict(level="model_checking", ref="3/C07",
                text="all pairs and triples over a pool of ~50 values (one per comparison shortcut): symmetry, reflexivity, transitivity, == vs "
                     "isEqualTo, in/find agreement, equal => equal value::hash(); and stateless exploration of all HashMap operation sequences "
                     "(depth 3/4, 18 operations incl. mutation of an array used as key and operations on a copy) against a reference dictionary, "
                     "observed after every operation",
                note="states = reference map contents reached; small maps (<=5 entries) only, so hash/bucket defects that need many entries are "
                     "covered through the hash relation, not through lookups",
                technique="exhaustive relation checking over a finite value pool plus explicit enumeration of operation histories against a reference map"),
    "C08": dict(level="model_checking", ref="3/C08",
                text="all operation sequences (length <=2/3 over ~55 operations: in-place ops with boundary indices, copying ops followed by mutation, "
                     "self-containment attempts direct / nested / through a HashMap) from 4 aliasing patterns of a 3-variable heap, with str of "
                     "every variable compared with a Python reference heap after every operation; refused operations must leave everything unchanged "
                     "and emit a diagnostic; a cyclic structure shows as stack overflow of the printer under the watchdog",
                note="states = distinct reference heaps reached; arrays have no hidden state, so printing every variable observes the whole state",
                technique="explicit enumeration of operation histories on the real VM against a reference heap model"),
    "C13": dict(level="exploration", ref="3/C13",
                text="all texts header(12) x conditional wrapper(6) x sequences of <=2/3 use-segments (44-segment alphabet) and #include cases, "
                     "preprocessed by the real preprocessor and compared token-for-token (strings byte-for-byte, plain text verbatim) with the "
                     "reference expander",
                note="trusted: reference expander vf/ref/preproc.py implementing the clauses of the statement; ambiguous constructs are outside the alphabet (listed in assumptions)",
                technique="bounded exhaustive enumeration of source texts from a grammar against a reference expander"),
    "C14": dict(level="exploration", ref="3/C14",
                text="all layouts of <=2/3 line-consuming blocks (16 kinds incl. multi-line comments/defines, conditional sections, nested includes; LF "
                     "and CRLF) followed by a probe of 7 kinds at 3 column offsets, in the main file or inside an included file, run through "
                     "preprocess -> parse -> execute; structured location (file, line, column) and __LINE__/__FILE__ values compared with the "
                     "physical position of the probe",
                note="numbering base calibrated on the empty layout; only drift is judged",
                technique="bounded exhaustive enumeration of source layouts with an injected fault at every position"),
    "C15": dict(level="model_checking", ref="3/C15",
                text="explicit enumeration of config load histories (1-2 files, <=2/3 top-level items over classes A/B/C with bases incl. missing / self / "
                     "mutual ones, 12 bodies with fields, nested classes, delete, +=) and, in every reached tree, all lookups over a path x entry "
                     "alphabet (kind predicates, getNumber/getText/getArray, inheritsFrom, configHierarchy, count/select) against a reference tree; every "
                     "query under a watchdog (termination / acyclicity)",
                note="states = reference trees reached (the container table is fully observable through the queries); ambiguous config semantics are outside the alphabet",
                technique="explicit-state enumeration of load histories on the real config host against a reference tree model"),
    "C16": dict(level="exploration", ref="3/C16",
                text="6 mapping configurations (nested prefixes, several roots per prefix, root mapping) x request paths from prefix x remainder alphabets "
                     "(`..`, `.`, empty segments, slash/backslash mixes, absolute physical paths inside and outside the roots, a bait file) x 6 requesters "
                     "(loadFile, preprocessFile(LineNumbers), execVM, #include at depth 1 and 2); the file actually served (every file holds a token naming "
                     "itself) is compared with a reference resolver; nothing outside the roots may ever be served",
                note="trusted: reference resolver in vf/checks/c16.py; one ambiguous class of relative includes is not judged (assumptions)",
                technique="bounded exhaustive enumeration of mapping configurations x request paths against a reference resolver"),
    "C17": dict(level="fault_enumeration", ref="3/C17",
                text="archives from an independent packer (all file sets of <=2/3 entries over names x sizes x property sets, with/without trailer) are "
                     "listed and every entry is read back through the VFS under the prefix; then every truncation length, every header/property/table byte "
                     "x 4 values, every size field x 6 values and absent / directory paths, each in a forked ASan child with a 64 MiB allocation limit and "
                     "a before/after hash of the scratch directory",
                note="trusted: independent packer vf/ref/pbo.py; undetectable corruptions (no per-entry checksum in the format) are judged for safety only",
                technique="exhaustive enumeration of truncation points and single-byte / length-field corruptions with sanitizers, allocation limit and directory hashing as oracle"),
    "C11": dict(level="model_checking", ref="3/C11",
                text="explicit enumeration of run histories on one VM under a virtual clock (link-time interposed system_clock): 11 program kinds "
                     "(loops of every kind, recursion, mutually spawning scripts, sleeping scripts, growing iteration, two terminating controls) x idle "
                     "gaps {0, M/2, M+1, 10M} x tick sizes, history length <=2/3; every run judged for: ends within M + slack of virtual time, abort "
                     "reported, VM empty afterwards, short run completes whatever preceded it; plus loop-cap ladder (5 caps x 7 bodies x scheduling)",
                note="time is virtual (every clock query advances it), so the deadline arithmetic is explored deterministically; real-time behaviour of single long operator calls is out of scope",
                technique="explicit-state exploration of run histories with an enumerated environment (virtual clock) on the real VM"),
    "C12": dict(level="model_checking", ref="3/C12",
                text="script sets (2-3 scripts over 5 shapes incl. sleeping and spawning ones) under every slice length {1,2,3,5,7,150} (guarded slice hook) "
                     "and clock tick: invariants on the scheduler's own turn trace (hook events: between two consecutive turns of a script every other live "
                     "script gets exactly one; no turn exceeds the slice), per-script order/results equal to running alone; sleep never resumes early; "
                     "scriptDone false while the child still executes statements and true after it finished; a terminated child executes nothing more - "
                     "for all child lengths x delays x slices",
                note="states = scheduler turns of the real start loop; time virtual; `runnable throughout` is read off the trace (context alive before and after the interval)",
                technique="exhaustive enumeration of small schedules (script sets x slice sizes x clock ticks) with trace invariants on the real scheduler"),
    "C18": dict(level="model_checking", ref="3/C18",
                text="all histories of <=2/3 API calls over 20 call kinds (succeeding, failing in each phase, erroring mid/last, late loggers, non-terminating "
                     "under a 50 ms virtual limit, every type character, malformed text, config loads) with a status probe after each, plus creation "
                     "variants, invalid handles, two-instance interleavings and aged instances, against the real exported C functions in forked ASan "
                     "children; every call judged on its own: documented code, status 0, callback user/call data, persisted globals/config only",
                note="trusted: table of documented codes per call kind; clock virtual; a dangling (destroyed) handle is the caller's use-after-free and is represented by NULL",
                technique="explicit-state exploration of API call histories on the real library with per-call reference verdicts"),
    "C19": dict(level="model_checking", ref="3/C19",
                text="sequential: 7 initial configurations x all action sequences (length <=3/5 over start, stop, abort, assembly_step, line_step, leave_scope) "
                     "replayed on fresh VMs against the state machine (state after return, return codes, one instruction per assembly step, line steps end on "
                     "another line, leave scope reduces depth, abort discards everything, liveness afterwards); concurrent: executor inside execute(start) vs a "
                     "controller issuing every short action sequence, all interleavings at ~30 guarded hook points with <=2/3 preemptions explored by a "
                     "token-passing scheduler (iterative context bounding), oracle: at most one executor inside the guard, stop/abort effective within 2 "
                     "instructions, documented return codes, no deadlock/livelock, VM usable afterwards; plus a free-running ThreadSanitizer pass of the same bodies",
                note="sequentially consistent interleavings at hook points only; default schedule replayed twice before exploring (determinism); TSan pass is "
                     "a separate free-running run because the cooperative hand-offs would hide races",
                technique="stateless preemption-bounded exploration of thread interleavings on the real code (CHESS-style) plus explicit enumeration of action histories; TSan for unsynchronised accesses"),
    "C20": dict(level="model_checking", ref="3/C20",
                text="pool of 22 programs (one per piece of process-wide or per-VM state): each twice in fresh processes; all ordered pairs (Q then P in a fresh "
                     "instance, Q's instance destroyed or alive); P beside Q on two threads with all interleavings at instruction boundaries up to 1/2 "
                     "preemptions (token-passing scheduler on the do.poll hook), P's structured log compared byte-wise with P alone; plus free-running "
                     "ThreadSanitizer pass over pairs for races between independent instances",
                note="time / random operators excluded; the controlled exploration does not interleave inside VM construction (no hook points there) - that part is covered by the TSan pass only",
                technique="exhaustive pairwise history enumeration plus preemption-bounded interleaving exploration on the real code; TSan for unsynchronised accesses"),
}

PENDING_REASON = "check not built yet in this round (planned, see DESIGN.md section 3)"


def main():
    props = [json.loads(l)["id"] for l in open(os.path.join(ROOT, "properties.jsonl"))]
    hooks_commits = []
    try:
        out = subprocess.run(["git", "-C", "/repo", "log", "--format=%H %s"], capture_output=True, text=True).stdout
        hooks_commits = [l.split()[0] for l in out.splitlines() if " verif:" in l]
    except Exception:
        pass
    m = {
        "version": 1,
        "setup_cmd": "python3 -m vf.build asan fast tsan",
        "hooks": {
            "guard": "SQFVM_RUNTIME_VERIF",
            "enable": "harness/CMakeLists.txt compiles /repo/src with -DSQFVM_RUNTIME_VERIF (python3 -m vf.build <variant>)",
            "baseline_off_cmd": "cmake -G Ninja -S /repo -B /repo/_build && cmake --build /repo/_build && ctest --test-dir /repo/_build -j8 --timeout 900",
            "source_commits": hooks_commits,
            "add_only": True,
        },
        "engines": [
            {"name": "vdriver", "path": "harness/", "serves_properties": sorted(CHECKS),
             "kind_free_text": "C++ driver linked against the repo objects (ASan/UBSan, TSan and plain variants): forked isolation per case, "
                               "virtual clock by symbol interposition, instruction-boundary monitor and scheduler hooks"},
            {"name": "vf", "path": "vf/", "serves_properties": sorted(CHECKS),
             "kind_free_text": "Python enumerators, reference models, sharded exhaustive runner, evidence / replay / known-findings plumbing"},
        ],
        "checks": [],
        "notes": ("All checks rebuild the harness from /repo's working tree (ccache) before running. Known findings: known_findings.json. "
                  "The hook macros (SQFVM_VERIF_POINT / _EVENT / _SLICE) expand to nothing without SQFVM_RUNTIME_VERIF; the two `verif:` commits only add "
                  "lines. The later `fix:` commit that rewrites runtime::evaluate_expression keeps the SQFVM_VERIF_POINT markers of the second hooks commit "
                  "inside the rewritten polling loops. Seeded changes: seeded/<id>/ (vf/seedall.sh runs the checks against all of them)."),
        "not_applicable": [],
    }
    for p in props:
        if p in CHECKS:
            c = CHECKS[p]
            m["checks"].append({
                "property_id": p,
                "quick_cmd": "python3 -m vf.run %s --tier quick" % p,
                "thorough_cmd": "python3 -m vf.run %s --tier thorough" % p,
                "evidence_file": "evidence/%s.json" % p,
                "replay_cmd_template": "python3 -m vf.replay {path}",
                "engine": "vdriver+vf",
                "level_claimed": {"category": c["level"], "text": c["text"], "design_ref": c["ref"]},
                "level_note": c["note"],
                "technique": c["technique"],
            })
        else:
            m["not_applicable"].append({"property_id": p, "reason": PENDING_REASON})
    json.dump(m, open(os.path.join(ROOT, "MANIFEST.json"), "w"), indent=1)
    try:
        import jsonschema
        jsonschema.validate(m, json.load(open("/root/.vp/MANIFEST.schema.json")))
        print("MANIFEST.json valid; %d checks, %d not_applicable" % (len(m["checks"]), len(m["not_applicable"])))
    except ImportError:
        print("MANIFEST.json written (jsonschema not importable here)")


if __name__ == "__main__":
    main()
