"""Check engine: sharded exhaustive enumeration over driver workers, violations, known findings,
replays and evidence.

A check module (vf/checks/cXX.py) defines
    PROPERTY = "Cxx"; LEVEL = "exploration" | "fault_enumeration" | "model_checking"
    def spaces(tier) -> list of Space
Each Space has a name, a generator function gen(tier) yielding *cases* (JSON-able), a function
check(worker_set, case) -> list of Violation tuples (signature, what, extra) and optional settings.
Enumeration is exhaustive over the generator; shards take cases by index modulo nprocs.
"""
import hashlib, json, multiprocessing as mp, os, sys, time, traceback
from . import build
from .pool import Worker

ROOT = build.ROOT
NPROC = int(os.environ.get("VERIF_NPROC", "16"))


class Space:
    def __init__(self, name, gen, check, variant="asan", prepare=None, nontrivial=None, describe="",
                 worker_opts=None, states_of=None, count_transitions=None):
        self.name = name
        self.gen = gen                  # gen() -> iterator of cases
        self.check = check              # check(W, case) -> (violations, info) ; info dict merged into stats
        self.variant = variant
        self.prepare = prepare          # request sent to a fresh worker before the first case (template VM)
        self.nontrivial = nontrivial    # nontrivial(case) -> bool (default: all)
        self.describe = describe
        self.worker_opts = worker_opts or {}


class W:
    """Worker set handed to check functions: lazily started driver processes per variant."""
    def __init__(self):
        self.workers = {}
        self.prepared = {}

    def get(self, variant="asan", prepare=None, **opts):
        key = (variant, json.dumps(prepare, sort_keys=True) if prepare else None, tuple(sorted(opts.items())))
        w = self.workers.get(key)
        if w is None:
            opts = dict(opts)
            if opts.pop("env_extra_key", None) == "nosym":
                opts["env_extra"] = {"ASAN_SYMBOLIZER_PATH": "/nonexistent", "NOSYM": "1"}
            w = Worker(variant, **opts)
            self.workers[key] = w
        if w.p is None or w.p.poll() is not None:
            w.close()
            w.start()
            if prepare:
                r = w.call(prepare)
                if r.get("outcome") != "ok":
                    raise RuntimeError("prepare failed: %r" % (r,))
        return w

    def call(self, req, variant="asan", prepare=None, **opts):
        w = self.get(variant, prepare, **opts)
        r = w.call(req)
        if r.get("kind") == "worker-died" and prepare:
            pass  # next get() re-prepares
        return r

    def close(self):
        for w in self.workers.values():
            w.close()
        self.workers = {}


def case_hash(case):
    return hashlib.sha1(json.dumps(case, sort_keys=True, ensure_ascii=True).encode()).hexdigest()


def _shard_main(modname, tier, space_index, shard, nshards, deadline, q, seed):
    try:
        import importlib
        mod = importlib.import_module(modname)
        space = mod.spaces(tier)[space_index]
        ws = W()
        n = 0
        nontrivial = 0
        viols = []
        samples = []
        info_tot = {}
        capped = False
        seen = set()
        for i, case in enumerate(space.gen()):
            if i % nshards != shard:
                continue
            if time.time() > deadline:
                capped = True
                break
            try:
                res = space.check(ws, case)
            except Exception as ex:  # harness error: surface loudly, never as a verdict
                q.put(("error", space.name, "%s\ncase=%r\n%s" % (ex, case, traceback.format_exc())))
                ws.close()
                return
            if isinstance(res, tuple):
                vs, info = res
            else:
                vs, info = res, None
            # a case may be a batch of elementary cases: info["n"] counts them, info["nontrivial"] the
            # distinct non-trivial ones among them (batches are disjoint by construction)
            n += int(info.pop("n", 1)) if info else 1
            batch_nontrivial = info.pop("nontrivial", None) if info else None
            if info:
                for k, v in info.items():
                    if isinstance(v, (int, float)):
                        info_tot[k] = info_tot.get(k, 0) + v
                    elif isinstance(v, (set, frozenset)):
                        info_tot.setdefault(k, set()).update(v)
                    elif isinstance(v, list):
                        cur = info_tot.setdefault(k, [])
                        if len(cur) < 3:
                            cur.extend(v[:3 - len(cur)])
            if batch_nontrivial is not None:
                nontrivial += int(batch_nontrivial)
            elif space.nontrivial is None or space.nontrivial(case):
                h = case_hash(case)
                if h not in seen:
                    if len(seen) < 400000:
                        seen.add(h)
                    nontrivial += 1
            if len(samples) < 2:
                samples.append(case)
            for v in vs:
                if len(viols) < 200:
                    viols.append({"signature": v[0], "what": v[1], "case": v[3] if len(v) > 3 else case, "extra": v[2] if len(v) > 2 else None,
                                  "space": space.name})
        ws.close()
        for k, v in list(info_tot.items()):
            if isinstance(v, set):
                info_tot[k] = sorted(v)[:5000]
        q.put(("done", space.name, {"n": n, "nontrivial": nontrivial, "viols": viols, "samples": samples,
                                     "info": info_tot, "capped": capped}))
    except Exception as ex:
        q.put(("error", "?", "%s\n%s" % (ex, traceback.format_exc())))


class Result:
    def __init__(self):
        self.spaces = []
        self.violations = []
        self.errors = []


def run_spaces(modname, tier, deadline, seed, nproc=NPROC):
    import importlib
    mod = importlib.import_module(modname)
    spaces = mod.spaces(tier)
    ctx = mp.get_context("fork")
    res = Result()
    for si, space in enumerate(spaces):
        t0 = time.time()
        build.ensure(space.variant)
        q = ctx.Queue()
        nsh = getattr(space, "nshards", None) or nproc
        procs = [ctx.Process(target=_shard_main, args=(modname, tier, si, k, nsh, deadline, q, seed)) for k in range(nsh)]
        for p in procs:
            p.start()
        agg = {"name": space.name, "describe": space.describe, "n": 0, "nontrivial": 0, "samples": [], "info": {},
               "capped": False}
        got = 0
        while got < nsh:
            try:
                kind, name, payload = q.get(timeout=5)
            except Exception:
                if not any(p.is_alive() for p in procs) and q.empty():
                    res.errors.append("space %s: a shard died without reporting" % space.name)
                    break
                continue
            got += 1
            if kind == "error":
                res.errors.append(payload)
                continue
            agg["n"] += payload["n"]
            agg["nontrivial"] += payload["nontrivial"]
            agg["capped"] = agg["capped"] or payload["capped"]
            if len(agg["samples"]) < 3:
                agg["samples"].extend(payload["samples"][:1])
            for k, v in payload["info"].items():
                if isinstance(v, (int, float)):
                    agg["info"][k] = agg["info"].get(k, 0) + v
                elif isinstance(v, list):
                    cur = agg["info"].setdefault(k, [])
                    if v and isinstance(v[0], (str, int, float)):
                        cur[:] = sorted(set(cur) | set(v))[:5000]
                    elif len(cur) < 3:
                        cur.extend(v[:3 - len(cur)])
            res.violations.extend(payload["viols"])
        for p in procs:
            p.join(timeout=10)
            if p.is_alive():
                p.terminate()
        agg["wall_s"] = round(time.time() - t0, 2)
        res.spaces.append(agg)
    return res


# ---------------------------------------------------------------------------------------------
def load_known():
    p = os.path.join(ROOT, "known_findings.json")
    if not os.path.exists(p):
        return {"findings": [], "fixed": []}
    return json.load(open(p))


def finish(prop, level, tier, seed, t0, res, assumptions, technique_note, extra_cov=None):
    """Classify violations against known findings, write replays + evidence, print the verdict lines,
    return the exit code."""
    known = load_known()
    known_sigs = {f["signature"]: f for f in known["findings"] if f["property"] == prop}
    by_sig = {}
    for v in res.violations:
        by_sig.setdefault(v["signature"], []).append(v)
    new = []
    matched = []
    for sig, vs in sorted(by_sig.items()):
        if sig in known_sigs:
            matched.append((sig, len(vs)))
            print("KNOWN-FINDING: property=%s %s [%s] (%d cases this run)" % (prop, known_sigs[sig]["what"], sig, len(vs)))
        else:
            new.append((sig, vs))
    rc = 0
    OUT = os.environ.get("VERIF_OUT_DIR", ROOT)    # seeded-change runs write their evidence/replays elsewhere
    os.makedirs(os.path.join(OUT, "replays", prop), exist_ok=True)
    for sig, vs in new:
        v = min(vs, key=lambda x: len(json.dumps(x["case"])))
        h = case_hash({"sig": sig, "case": v["case"]})[:16]
        path = os.path.join(OUT, "replays", prop, h + ".json")
        json.dump({"property": prop, "space": v["space"], "signature": sig, "what": v["what"], "case": v["case"],
                   "extra": v["extra"], "tier": tier}, open(path, "w"), indent=1)
        print("VIOLATION property=%s replay=%s  # %s: %s" % (prop, path, sig, v["what"]))
        rc = 1
    for e in res.errors:
        print("HARNESS-ERROR property=%s %s" % (prop, e.strip().splitlines()[0] if e.strip() else e))
        sys.stderr.write(e + "\n")
        rc = rc or 2
    evaluations = sum(s["n"] for s in res.spaces)
    nontrivial = sum(s["nontrivial"] for s in res.spaces)
    exhaustive = not any(s["capped"] for s in res.spaces) and not res.errors
    cov = {
        "evaluations": evaluations,
        "distinct_nontrivial": nontrivial,
        "rule": technique_note,
        "samples": [s["samples"][0] for s in res.spaces if s["samples"]][:6],
        "exhaustive": exhaustive,
        "spaces": [{"name": s["name"], "describe": s["describe"], "cases": s["n"], "distinct_nontrivial": s["nontrivial"],
                    "capped_by_deadline": s["capped"], "wall_s": s["wall_s"],
                    "stats": {k: (v if not isinstance(v, list) else (v[:8] if len(v) <= 8 else {"count": len(v), "first": v[:8]}))
                              for k, v in s["info"].items()}} for s in res.spaces],
        "known_findings_matched": [{"signature": s, "cases": n} for s, n in matched],
        "new_violation_signatures": [s for s, _ in new],
    }
    if level == "model_checking":
        st = sum(int(s["info"].get("states", 0)) for s in res.spaces)
        tr = sum(int(s["info"].get("transitions", 0)) for s in res.spaces)
        cov["states"] = max(st, 1) if evaluations else 0
        cov["transitions"] = max(tr, 1) if evaluations else 0
        cov["traces_validated_against_impl"] = sum(int(s["info"].get("executions", s["n"])) for s in res.spaces)
    if extra_cov:
        cov.update(extra_cov)
    ev = {"property_id": prop, "tier": tier, "seed": seed, "level": level, "coverage": cov,
          "assumptions": assumptions, "wall_s": round(time.time() - t0, 2), "violations": len(new)}
    os.makedirs(os.path.join(OUT, "evidence"), exist_ok=True)
    json.dump(ev, open(os.path.join(OUT, "evidence", prop + ".json"), "w"), indent=1)
    print("%s tier=%s cases=%d distinct_nontrivial=%d exhaustive=%s known=%d new=%d wall=%.1fs" % (
        prop, tier, evaluations, nontrivial, exhaustive, len(matched), len(new), time.time() - t0))
    return rc
