"""python3 -m vf.seedmeta <name> --caught Cxx[,Cyy] [--missed-before "what was strengthened"] : writes /verif/seeded/<name>/meta.json
from the sub-agent's own description plus what was run here to confirm it and which checks report it."""
import json, sys, os, glob

def main():
    name = sys.argv[1]
    d = os.path.join(os.path.dirname(os.path.dirname(os.path.abspath(__file__))), "seeded", name)
    a = {}
    if os.path.exists(os.path.join(d, "meta.agent.json")):
        try:
            a = json.load(open(os.path.join(d, "meta.agent.json")))
        except Exception:
            a = {}
    args = sys.argv[2:]
    def opt(k, default=None):
        return args[args.index(k) + 1] if k in args else default
    caught = [c for c in (opt("--caught", "") or "").split(",") if c]
    meta = {
        "property": a.get("property", name[:3]),
        "summary": a.get("summary"),
        "needs_to_manifest": a.get("needs_to_manifest"),
        "origin": "fresh sub-agent given only the property text and a scratch worktree of the repository",
        "confirmed_here": [
            "vf/seedconfirm.sh %s: scratch worktree with the change builds, ctest 41/41 pass" % name,
            "demo/run.sh fails with the change and passes with the change reverted (same worktree, rebuilt)",
        ],
        "checks_run": ["python3 -m vf.seedtest seeded/%s/patch.diff %s   (git -C /repo apply; quick tier; git -C /repo checkout -- .)" % (name, " ".join(caught or [a.get("property", name[:3])]))],
        "caught_by": caught,
        "replays": sorted(os.path.basename(p) for p in glob.glob(os.path.join(d, "caught_by_*.json"))),
        "first_result": opt("--first", "caught"),
        "strengthening": opt("--strengthened"),
    }
    json.dump(meta, open(os.path.join(d, "meta.json"), "w"), indent=1)
    print("wrote", os.path.join(d, "meta.json"))

if __name__ == "__main__":
    main()
