"""python3 -m vf.run <Cxx> --tier quick|thorough : run one property check against /repo's working tree."""
import argparse, importlib, os, sys, time
from . import build, engine


def main():
    ap = argparse.ArgumentParser()
    ap.add_argument("prop")
    ap.add_argument("--tier", default=os.environ.get("VERIF_TIER", "quick"))
    a = ap.parse_args()
    prop = a.prop.upper()
    tier = a.tier if a.tier in ("quick", "thorough") else "quick"
    seed = int(os.environ.get("VERIF_SEED", "0") or 0)
    t0 = time.time()
    modname = "vf.checks." + prop.lower()
    mod = importlib.import_module(modname)
    default_deadline = 600 if tier == "quick" else 1500
    deadline = t0 + float(os.environ.get("VERIF_DEADLINE_S", getattr(mod, "DEADLINE_S", {}).get(tier, default_deadline)))
    for v in getattr(mod, "VARIANTS", ["asan"]):
        build.ensure(v)
    # every run starts from an empty scratch directory: files left by earlier runs (per-process include files whose process
    # ids are handed out again) must not be served to this run
    import shutil
    shutil.rmtree(os.path.join(build.BUILD, "scratch", prop.lower()), ignore_errors=True)
    res = engine.run_spaces(modname, tier, deadline, seed)
    if hasattr(mod, "post"):
        mod.post(tier, res)
    rc = engine.finish(prop, mod.LEVEL, tier, seed, t0, res, getattr(mod, "ASSUMPTIONS", []), mod.RULE,
                       getattr(mod, "extra_coverage", lambda r: None)(res))
    sys.exit(1 if rc else 0)


if __name__ == "__main__":
    main()
