"""python3 -m vf.seedtest <patch.diff> <Cxx> [<Cyy> ...] [--tier quick]
Applies a seeded change to /repo, runs the named checks, prints their verdict lines, and restores /repo."""
import subprocess, sys, os

REPO = "/repo"


def main():
    args = [a for a in sys.argv[1:] if not a.startswith("--")]
    tier = "thorough" if "--thorough" in sys.argv else "quick"
    patch, props = args[0], args[1:]
    st = subprocess.run(["git", "-C", REPO, "status", "--porcelain", "--untracked-files=no"], capture_output=True, text=True).stdout.strip()
    if st:
        sys.exit("/repo has uncommitted changes, refusing: " + st)
    r = subprocess.run(["git", "-C", REPO, "apply", patch])
    if r.returncode != 0:
        sys.exit("patch does not apply")
    caught = {}
    name = os.path.basename(os.path.dirname(os.path.abspath(patch)))
    outdir = "/tmp/seedtest_out/" + name
    env = dict(os.environ, VERIF_OUT_DIR=outdir)
    try:
        for p in props:
            out = subprocess.run([sys.executable, "-m", "vf.run", p, "--tier", tier], capture_output=True, text=True, env=env, cwd=os.path.dirname(os.path.dirname(os.path.abspath(__file__))))
            lines = [l for l in out.stdout.splitlines() if l.startswith(("VIOLATION", "HARNESS-ERROR")) or " tier=" in l]
            v = [l for l in lines if l.startswith("VIOLATION")]
            caught[p] = len(v)
            print("== %s: exit %d, %d violation signatures" % (p, out.returncode, len(v)))
            for l in lines[:4] + lines[-1:]:
                print("   " + l[:300])
            if v:   # keep the first replay beside the seeded change
                import shutil, re
                m = re.search(r"replay=(\S+)", v[0])
                if m and os.path.exists(m.group(1)):
                    shutil.copy(m.group(1), os.path.join(os.path.dirname(os.path.abspath(patch)), "caught_by_%s.json" % p))
    finally:
        subprocess.run(["git", "-C", REPO, "checkout", "--", "."])
    print("CAUGHT" if any(caught.values()) else "MISSED", caught)


if __name__ == "__main__":
    main()
