"""python3 -m vf.replay <replay.json> : re-execute one recorded violation without any explorer."""
import importlib, json, sys
from . import build, engine


def main():
    path = sys.argv[1]
    rec = json.load(open(path))
    prop = rec["property"]
    mod = importlib.import_module("vf.checks." + prop.lower())
    space = [s for s in mod.spaces(rec.get("tier", "quick")) if s.name == rec["space"]][0]
    build.ensure(space.variant)
    ws = engine.W()
    res = space.check(ws, rec["case"])
    ws.close()
    vs = res[0] if isinstance(res, tuple) else res
    for v in vs:
        print("REPRODUCED property=%s signature=%s : %s" % (prop, v[0], v[1]))
    if not vs:
        print("not reproduced")
    sys.exit(1 if vs else 0)


if __name__ == "__main__":
    main()
