#!/bin/bash
# vf/seedproc.sh <round dir> <suffix> <ids...>: confirm each finished seed of a round and run the check of its property against it
R=$1; S=$2; shift 2
cd /verif
for id in "$@"; do
  c=$(vf/seedconfirm.sh $id $R/$id ${id}$S 2>&1 | tail -1)
  if [[ "$c" != CONFIRMED* ]]; then echo "$id$S: NOT CONFIRMED: $c"; continue; fi
  r=$(python3 -m vf.seedtest /verif/seeded/${id}$S/patch.diff $id 2>&1 | tail -1)
  echo "$id$S: $r"
done
