"""Build the harness + repo objects for a variant (asan | tsan | fast) from /repo's working tree."""
import fcntl, os, subprocess, sys, time

ROOT = os.path.dirname(os.path.dirname(os.path.abspath(__file__)))
REPO = os.environ.get("VERIF_REPO", "/repo")
BUILD = os.path.join(ROOT, "build")

FLAGS = {
    "asan": "-O1 -g1 -fsanitize=address,undefined,float-cast-overflow -fno-sanitize=vptr "
            "-fno-sanitize-recover=undefined,float-cast-overflow -fno-omit-frame-pointer -D_GLIBCXX_ASSERTIONS",
    "tsan": "-O1 -g1 -fsanitize=thread -fno-omit-frame-pointer",
    "fast": "-O2 -g0",
}


def bdir(variant):
    return os.path.join(BUILD, variant)


def driver(variant="asan"):
    return os.path.join(bdir(variant), "vdriver")


def cli(variant="asan"):
    return os.path.join(bdir(variant), "sqfvm_cli")


def ensure(variant="asan", quiet=True):
    d = bdir(variant)
    os.makedirs(d, exist_ok=True)
    env = dict(os.environ)
    env["CCACHE_DIR"] = os.path.join(BUILD, "ccache")
    env.setdefault("CCACHE_BASEDIR", "/")
    lock = open(os.path.join(BUILD, ".lock." + variant), "w")
    fcntl.flock(lock, fcntl.LOCK_EX)
    try:
        t0 = time.time()
        if not os.path.exists(os.path.join(d, "build.ninja")):
            cmd = ["cmake", "-G", "Ninja", "-S", os.path.join(ROOT, "harness"), "-B", d,
                   "-DCMAKE_BUILD_TYPE=None", "-DCMAKE_CXX_COMPILER=clang++",
                   "-DCMAKE_CXX_COMPILER_LAUNCHER=ccache",
                   "-DREPO_DIR=" + REPO, "-DCMAKE_CXX_FLAGS=" + FLAGS[variant]]
            r = subprocess.run(cmd, env=env, stdout=subprocess.PIPE, stderr=subprocess.STDOUT, text=True)
            if r.returncode != 0:
                sys.stderr.write(r.stdout)
                raise SystemExit("cmake configure failed for variant " + variant)
        r = subprocess.run(["ninja", "-C", d, "vdriver", "sqfvm_cli"], env=env,
                           stdout=subprocess.PIPE, stderr=subprocess.STDOUT, text=True)
        if r.returncode != 0:
            sys.stderr.write(r.stdout[-20000:])
            raise SystemExit("build failed for variant " + variant)
        if not quiet:
            print("built %s in %.1fs" % (variant, time.time() - t0))
    finally:
        fcntl.flock(lock, fcntl.LOCK_UN)
        lock.close()
    return driver(variant)


if __name__ == "__main__":
    vs = sys.argv[1:] or ["all"]
    if vs == ["all"]:
        vs = ["asan", "tsan"]
    for v in vs:
        ensure(v, quiet=False)
