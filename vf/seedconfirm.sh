#!/bin/bash
# vf/seedconfirm.sh <ID> [<dir>]: confirm a seeded change in its scratch worktree: builds and passes the 41 tests WITH the change, demonstration fails
# with it and passes without it; then copies patch + demonstration + meta into /verif/seeded/<name>/.
ID=$1; WT=${2:-/tmp/seed/$ID}; NAME=${3:-$ID}
set -u
cd $WT || exit 2
git diff --quiet && { echo "no change applied in $WT"; exit 2; }
cmake --build _build >/dev/null 2>&1 || { echo "BUILD FAILED with change"; exit 1; }
T=$(ctest --test-dir _build -j8 2>&1 | grep "tests passed"); echo "with change: $T"
echo "$T" | grep -q "100% tests passed, 0 tests failed out of 41" || { echo "TESTS DO NOT PASS"; exit 1; }
(cd seed_out && bash run.sh >/tmp/seed/$NAME.with.log 2>&1); W=$?
git diff -- src > /tmp/seed/$NAME.actual.diff
git apply -R /tmp/seed/$NAME.actual.diff || { echo "cannot revert"; exit 2; }
cmake --build _build >/dev/null 2>&1
(cd seed_out && bash run.sh >/tmp/seed/$NAME.without.log 2>&1); WO=$?
git apply /tmp/seed/$NAME.actual.diff
echo "demonstration: with change exit=$W (tail: $(tail -1 /tmp/seed/$NAME.with.log | cut -c1-100)) ; without change exit=$WO"
if [ $WO -ne 0 ] || { [ $W -eq 0 ] && ! grep -q FAIL /tmp/seed/$NAME.with.log; }; then echo "DEMONSTRATION NOT CONFIRMED"; exit 1; fi
mkdir -p /verif/seeded/$NAME && cp /tmp/seed/$NAME.actual.diff /verif/seeded/$NAME/patch.diff && rsync -a --exclude patch.diff seed_out/ /verif/seeded/$NAME/demo/ && cp seed_out/meta.json /verif/seeded/$NAME/meta.agent.json 2>/dev/null
echo "CONFIRMED $NAME"
