#!/bin/bash
# vf/seedall.sh [ids...]: run every seeded change against the quick tier of the check of its property (regression of the checks themselves)
cd /verif
ids=${@:-$(ls seeded)}
for id in $ids; do
  [ -f seeded/$id/patch.diff ] || continue
  # the check(s) recorded as catching this change (meta.json caught_by), else the check of its own property
  prop=$(python3 -c "import json,sys; m=json.load(open('/verif/seeded/$id/meta.json')); print(' '.join(m.get('caught_by') or ['${id:0:3}']))" 2>/dev/null || echo ${id:0:3})
  if ! git -C /repo apply --check /verif/seeded/$id/patch.diff 2>/dev/null; then echo "$id: patch does not apply to the current tree (see meta.json)"; continue; fi
  r=$(python3 -m vf.seedtest /verif/seeded/$id/patch.diff $prop 2>&1 | tail -1)
  echo "$id: $r"
done
