"""python3 -m vf.designtables : regenerates the two generated tables of DESIGN.md (10.3 repaired defects from known_findings.json,
10.5 seeded changes from seeded/*/meta.json) between their marker comments."""
import json, os, re, glob, subprocess
ROOT = os.path.dirname(os.path.dirname(os.path.abspath(__file__)))


def esc(s):
    return (s or "").replace("|", "\\|").replace("\n", " ")


def fixed_table():
    k = json.load(open(os.path.join(ROOT, "known_findings.json")))
    per = {}
    for rec in k["fixed"]:
        m = re.match(r"fixed: property=(C\d\d) (\w+) (.*)$", rec, re.S)
        prop, commit, what = m.group(1), m.group(2), m.group(3)
        what = re.sub(r"\s*\[C\d\d\|[^\]]*\]\s*$", "", what)
        per.setdefault(prop, {}).setdefault(commit, []).append(what)
    known = {}
    for f in k["findings"]:
        p = (f.get("property") if isinstance(f, dict) else re.search(r"C\d\d", f).group(0))
        known[p] = known.get(p, 0) + 1
    rows = ["| property | known findings | repaired defects (`commit` what failed; several signatures repaired by one commit are merged) |", "|---|---|---|"]
    for i in range(1, 21):
        p = "C%02d" % i
        cells = []
        for c, whats in per.get(p, {}).items():
            if len(whats) == 1:
                cells.append("`%s` %s" % (c, esc(whats[0])[:420]))
            else:
                cells.append("`%s` %d signatures, e.g. %s" % (c, len(whats), "; ".join(esc(w)[:110] for w in whats[:3])))
        rows.append("| %s | %d | %s |" % (p, known.get(p, 0), "; ".join(cells)))
    ncommits = len({c for p in per.values() for c in p})
    return "\n".join(rows), ncommits, len(k["fixed"])


def seeded_table():
    rows = ["| seeded change | what it does (sub-agent's summary, shortened) | first run of my quick check | now caught by | strengthening it led to |", "|---|---|---|---|---|"]
    stats = {}
    for d in sorted(glob.glob(os.path.join(ROOT, "seeded", "C*"))):
        name = os.path.basename(d)
        mp = os.path.join(d, "meta.json")
        if not os.path.exists(mp):
            continue
        m = json.load(open(mp))
        rnd = {"": 1, "b": 2, "c": 3, "d": 4, "e": 5}[name[3:]]
        st = stats.setdefault(rnd, [0, 0])
        st[0 if m.get("first_result", "caught") == "caught" else 1] += 1
        rows.append("| `seeded/%s` | %s Needs: %s | %s | %s | %s |" % (name, esc(m.get("summary"))[:210], esc(m.get("needs_to_manifest"))[:150], esc(m.get("first_result", "caught")),
                                                                    ", ".join(m.get("caught_by") or ["-"]), esc(m.get("strengthening") or "-")))
    return "\n".join(rows), stats


def replace(text, tag, body):
    a, b = "<!-- generated:%s -->" % tag, "<!-- /generated:%s -->" % tag
    i, j = text.index(a), text.index(b)
    return text[:i + len(a)] + "\n" + body + "\n" + text[j:]


def main():
    p = os.path.join(ROOT, "DESIGN.md")
    t = open(p).read()
    ft, ncommits, nrec = fixed_table()
    st, stats = seeded_table()
    t = replace(t, "fixed", ft)
    t = replace(t, "seeded", st)
    open(p, "w").write(t)
    nfix = subprocess.run("git -C /repo log --oneline | grep -c ' fix:'", shell=True, capture_output=True, text=True).stdout.strip()
    print("fix commits in /repo:", nfix, "| commits referenced by fixed records:", ncommits, "| fixed records:", nrec)
    print("first-run results per round (caught, missed):", stats)


if __name__ == "__main__":
    main()
